package symx

// Pure address arithmetic of package net, computed natively on concrete values (the rest of net is
// environment: listeners and connections are recorders, see grpcmodel.go).

import (
	"net"

	"golang.org/x/tools/go/ssa"
)

func addNetModel(h map[string]hookFn) {
	ip := func(v value, what string) net.IP {
		if s, ok := v.([]value); ok && s == nil {
			return nil
		}
		return net.IP(goBytes(v, what))
	}
	ipnet := func(v value, what string) *net.IPNet {
		p := v.(*value)
		if p == nil {
			panic(runtimeErrorString("runtime error: invalid memory address or nil pointer dereference"))
		}
		st := (*p).(structure)
		return &net.IPNet{IP: ip(st[0], what), Mask: net.IPMask(ip(st[1], what))}
	}
	mkNet := func(n *net.IPNet) value {
		if n == nil {
			return (*value)(nil)
		}
		cell := value(structure{fromBytes(n.IP), fromBytes(n.Mask)})
		return &cell
	}
	h["net.ParseIP"] = func(i *interpreter, fr *frame, fn *ssa.Function, args []value) value {
		return fromBytes(net.ParseIP(goString(args[0], "net.ParseIP")))
	}
	h["net.ParseCIDR"] = func(i *interpreter, fr *frame, fn *ssa.Function, args []value) value {
		a, n, err := net.ParseCIDR(goString(args[0], "net.ParseCIDR"))
		return tuple{fromBytes(a), mkNet(n), i.errOrNil(err)}
	}
	h["net.IPv4"] = func(i *interpreter, fr *frame, fn *ssa.Function, args []value) value {
		b := func(v value) byte { return byte(asInt64(v)) }
		return fromBytes(net.IPv4(b(args[0]), b(args[1]), b(args[2]), b(args[3])))
	}
	h["net.CIDRMask"] = func(i *interpreter, fr *frame, fn *ssa.Function, args []value) value {
		return fromBytes(net.CIDRMask(int(asInt64(args[0])), int(asInt64(args[1]))))
	}
	h["net.IPv4Mask"] = func(i *interpreter, fr *frame, fn *ssa.Function, args []value) value {
		b := func(v value) byte { return byte(asInt64(v)) }
		return fromBytes(net.IPv4Mask(b(args[0]), b(args[1]), b(args[2]), b(args[3])))
	}
	h["(net.IP).Equal"] = func(i *interpreter, fr *frame, fn *ssa.Function, args []value) value {
		return ip(args[0], "IP.Equal").Equal(ip(args[1], "IP.Equal"))
	}
	h["(net.IP).String"] = func(i *interpreter, fr *frame, fn *ssa.Function, args []value) value {
		return ip(args[0], "IP.String").String()
	}
	h["(net.IP).To4"] = func(i *interpreter, fr *frame, fn *ssa.Function, args []value) value {
		return fromBytes(ip(args[0], "IP.To4").To4())
	}
	h["(net.IP).To16"] = func(i *interpreter, fr *frame, fn *ssa.Function, args []value) value {
		return fromBytes(ip(args[0], "IP.To16").To16())
	}
	h["(net.IP).Mask"] = func(i *interpreter, fr *frame, fn *ssa.Function, args []value) value {
		return fromBytes(ip(args[0], "IP.Mask").Mask(net.IPMask(ip(args[1], "IP.Mask"))))
	}
	h["(net.IP).DefaultMask"] = func(i *interpreter, fr *frame, fn *ssa.Function, args []value) value {
		return fromBytes(ip(args[0], "IP.DefaultMask").DefaultMask())
	}
	for name, f := range map[string]func(net.IP) bool{
		"IsLoopback": net.IP.IsLoopback, "IsPrivate": net.IP.IsPrivate, "IsUnspecified": net.IP.IsUnspecified,
		"IsGlobalUnicast": net.IP.IsGlobalUnicast, "IsLinkLocalUnicast": net.IP.IsLinkLocalUnicast, "IsMulticast": net.IP.IsMulticast,
	} {
		f := f
		h["(net.IP)."+name] = func(i *interpreter, fr *frame, fn *ssa.Function, args []value) value {
			return f(ip(args[0], "IP predicate"))
		}
	}
	h["(*net.IPNet).Contains"] = func(i *interpreter, fr *frame, fn *ssa.Function, args []value) value {
		return ipnet(args[0], "IPNet.Contains").Contains(ip(args[1], "IPNet.Contains"))
	}
	h["(*net.IPNet).String"] = func(i *interpreter, fr *frame, fn *ssa.Function, args []value) value {
		return ipnet(args[0], "IPNet.String").String()
	}
	h["(*net.IPNet).Network"] = func(i *interpreter, fr *frame, fn *ssa.Function, args []value) value { return "ip+net" }
	h["(net.IPMask).Size"] = func(i *interpreter, fr *frame, fn *ssa.Function, args []value) value {
		o, b := net.IPMask(ip(args[0], "IPMask.Size")).Size()
		return tuple{o, b}
	}
	h["(net.IPMask).String"] = func(i *interpreter, fr *frame, fn *ssa.Function, args []value) value {
		return net.IPMask(ip(args[0], "IPMask.String")).String()
	}
	h["net.SplitHostPort"] = func(i *interpreter, fr *frame, fn *ssa.Function, args []value) value {
		a, b, err := net.SplitHostPort(goString(args[0], "net.SplitHostPort"))
		return tuple{a, b, i.errOrNil(err)}
	}
}
