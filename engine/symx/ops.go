// Copyright 2013 The Go Authors. All rights reserved.
// Use of this source code is governed by a BSD-style
// license that can be found in the LICENSE file.

package symx

import (
	"bytes"
	"fmt"
	"go/constant"
	"go/token"
	"go/types"
	"os"
	"strings"
	"unsafe"

	"golang.org/x/tools/go/ssa"
)

// If the target program panics, the interpreter panics with this type.
type targetPanic struct {
	v value
}

func (p targetPanic) String() string {
	return toString(p.v)
}

// If the target program calls exit, the interpreter panics with this type.
type exitPanic int

// constValue returns the value of the constant with the
// dynamic type tag appropriate for c.Type().
func constValue(c *ssa.Const) value {
	if c.Value == nil {
		return zero(c.Type()) // typed zero
	}
	// c is not a type parameter so it's underlying type is basic.

	if t, ok := c.Type().Underlying().(*types.Basic); ok {
		// TODO(adonovan): eliminate untyped constants from SSA form.
		switch t.Kind() {
		case types.Bool, types.UntypedBool:
			return constant.BoolVal(c.Value)
		case types.Int, types.UntypedInt:
			// Assume sizeof(int) is same on host and target.
			return int(c.Int64())
		case types.Int8:
			return int8(c.Int64())
		case types.Int16:
			return int16(c.Int64())
		case types.Int32, types.UntypedRune:
			return int32(c.Int64())
		case types.Int64:
			return c.Int64()
		case types.Uint:
			// Assume sizeof(uint) is same on host and target.
			return uint(c.Uint64())
		case types.Uint8:
			return uint8(c.Uint64())
		case types.Uint16:
			return uint16(c.Uint64())
		case types.Uint32:
			return uint32(c.Uint64())
		case types.Uint64:
			return c.Uint64()
		case types.Uintptr:
			// Assume sizeof(uintptr) is same on host and target.
			return uintptr(c.Uint64())
		case types.Float32:
			return float32(c.Float64())
		case types.Float64, types.UntypedFloat:
			return c.Float64()
		case types.Complex64:
			return complex64(c.Complex128())
		case types.Complex128, types.UntypedComplex:
			return c.Complex128()
		case types.String, types.UntypedString:
			if c.Value.Kind() == constant.String {
				return constant.StringVal(c.Value)
			}
			return string(rune(c.Int64()))
		}
	}

	panic(fmt.Sprintf("constValue: %s", c))
}

// fitsInt returns true if x fits in type int according to sizes.
func fitsInt(x int64, sizes types.Sizes) bool {
	intSize := sizes.Sizeof(types.Typ[types.Int])
	if intSize < sizes.Sizeof(types.Typ[types.Int64]) {
		maxInt := int64(1)<<((intSize*8)-1) - 1
		minInt := -int64(1) << ((intSize * 8) - 1)
		return minInt <= x && x <= maxInt
	}
	return true
}

// asInt64 converts x, which must be an integer, to an int64.
//
// Callers that need a value directly usable as an int should combine this with fitsInt().
func asInt64(x value) int64 {
	switch x := x.(type) {
	case int:
		return int64(x)
	case int8:
		return int64(x)
	case int16:
		return int64(x)
	case int32:
		return int64(x)
	case int64:
		return x
	case uint:
		return int64(x)
	case uint8:
		return int64(x)
	case uint16:
		return int64(x)
	case uint32:
		return int64(x)
	case uint64:
		return int64(x)
	case uintptr:
		return int64(x)
	}
	panic(fmt.Sprintf("cannot convert %T to int64", x))
}

// asUint64 converts x, which must be an unsigned integer, to a uint64
// suitable for use as a bitwise shift count.
func asUint64(x value) uint64 {
	switch x := x.(type) {
	case uint:
		return uint64(x)
	case uint8:
		return uint64(x)
	case uint16:
		return uint64(x)
	case uint32:
		return uint64(x)
	case uint64:
		return x
	case uintptr:
		return uint64(x)
	}
	panic(fmt.Sprintf("cannot convert %T to uint64", x))
}

// asUnsigned returns the value of x, which must be an integer type, as its equivalent unsigned type,
// and returns true if x is non-negative.
func asUnsigned(x value) (value, bool) {
	switch x := x.(type) {
	case int:
		return uint(x), x >= 0
	case int8:
		return uint8(x), x >= 0
	case int16:
		return uint16(x), x >= 0
	case int32:
		return uint32(x), x >= 0
	case int64:
		return uint64(x), x >= 0
	case uint, uint8, uint32, uint64, uintptr:
		return x, true
	}
	panic(fmt.Sprintf("cannot convert %T to unsigned", x))
}

// zero returns a new "zero" value of the specified type.
func zero(t types.Type) value {
	switch t := t.(type) {
	case *types.Basic:
		if t.Kind() == types.UntypedNil {
			panic("untyped nil has no zero value")
		}
		if t.Info()&types.IsUntyped != 0 {
			// TODO(adonovan): make it an invariant that
			// this is unreachable.  Currently some
			// constants have 'untyped' types when they
			// should be defaulted by the typechecker.
			t = types.Default(t).(*types.Basic)
		}
		switch t.Kind() {
		case types.Bool:
			return false
		case types.Int:
			return int(0)
		case types.Int8:
			return int8(0)
		case types.Int16:
			return int16(0)
		case types.Int32:
			return int32(0)
		case types.Int64:
			return int64(0)
		case types.Uint:
			return uint(0)
		case types.Uint8:
			return uint8(0)
		case types.Uint16:
			return uint16(0)
		case types.Uint32:
			return uint32(0)
		case types.Uint64:
			return uint64(0)
		case types.Uintptr:
			return uintptr(0)
		case types.Float32:
			return float32(0)
		case types.Float64:
			return float64(0)
		case types.Complex64:
			return complex64(0)
		case types.Complex128:
			return complex128(0)
		case types.String:
			return ""
		case types.UnsafePointer:
			return unsafe.Pointer(nil)
		default:
			panic(fmt.Sprint("zero for unexpected type:", t))
		}
	case *types.Pointer:
		return (*value)(nil)
	case *types.Array:
		a := make(array, t.Len())
		for i := range a {
			a[i] = zero(t.Elem())
		}
		return a
	case *types.Named:
		return zero(t.Underlying())
	case *types.Alias:
		return zero(types.Unalias(t))
	case *types.Interface:
		return iface{} // nil type, methodset and value
	case *types.Slice:
		return []value(nil)
	case *types.Struct:
		s := make(structure, t.NumFields())
		for i := range s {
			s[i] = zero(t.Field(i).Type())
		}
		return s
	case *types.Tuple:
		if t.Len() == 1 {
			return zero(t.At(0).Type())
		}
		s := make(tuple, t.Len())
		for i := range s {
			s[i] = zero(t.At(i).Type())
		}
		return s
	case *types.Chan:
		return (*channel)(nil)
	case *types.Map:
		return (*hashmap)(nil)
	case *types.Signature:
		return (*ssa.Function)(nil)
	}
	panic(fmt.Sprint("zero: unexpected ", t))
}

// slice returns x[lo:hi:max].  Any of lo, hi and max may be nil.
func (i *interpreter) slice(x, lo, hi, max value) value {
	var Len, Cap int
	switch x := x.(type) {
	case string:
		Len = len(x)
	case []value:
		Len = len(x)
		Cap = cap(x)
	case *value: // *array
		a := (*x).(array)
		Len = len(a)
		Cap = len(a)
	case opaqueStr:
		panic(unsupported{"slicing opaque string: " + x.desc})
	case symStr:
		Len = len(x.bs)
	case enumStr:
		panic(unsupported{"slicing an enumerated symbolic string"})
	}

	l := int64(0)
	if lo != nil {
		l = i.concreteInt64(lo, "slice low")
	}

	h := int64(Len)
	if hi != nil {
		h = i.concreteInt64(hi, "slice high")
	}

	m := int64(Cap)
	if max != nil {
		m = i.concreteInt64(max, "slice max")
	}

	switch x := x.(type) {
	case string:
		return x[l:h]
	case symStr:
		return mkStr(x.bs[l:h])
	case []value:
		return x[l:h:m]
	case *value: // *array
		a := (*x).(array)
		if m > int64(len(a)) {
			panic(runtimeErrorString(fmt.Sprintf("runtime error: slice bounds out of range [::%d] with length %d", m, len(a))))
		}
		return []value(a)[l:h:m]
	}
	panic(fmt.Sprintf("slice: unexpected X type: %T", x))
}

// lookup returns x[idx] where x is a map.
func (i *interpreter) lookup(instr *ssa.Lookup, x, idx value) value {
	switch x := x.(type) {
	case *hashmap:
		v, ok := i.mapLookup(x, idx)
		if !ok {
			v = zero(instr.X.Type().Underlying().(*types.Map).Elem())
		}
		if instr.CommaOk {
			v = tuple{v, ok}
		}
		return v
	}
	panic(fmt.Sprintf("unexpected x type in Lookup: %T", x))
}

// binop dispatches to the symbolic implementation when needed.
func (i *interpreter) binop(op token.Token, t types.Type, x, y value) value {
	if isSym(x) || isSym(y) {
		return i.symBinop(op, t, x, y)
	}
	switch x.(type) {
	case symStr:
		return i.symStrBinop(op, x, y)
	case enumStr:
		return i.enumStrBinop(op, x, y)
	}
	switch y.(type) {
	case symStr:
		return i.symStrBinop(op, x, y)
	case enumStr:
		return i.enumStrBinop(op, x, y)
	}
	if op == token.EQL || op == token.NEQ {
		if containsSym(x) || containsSym(y) {
			return i.symBinop(op, t, x, y)
		}
	}
	if _, ok := x.(symStr); ok {
		return i.symStrBinop(op, x, y)
	}
	if _, ok := y.(symStr); ok {
		return i.symStrBinop(op, x, y)
	}
	if _, ok := x.(enumStr); ok {
		return i.enumStrBinop(op, x, y)
	}
	if _, ok := y.(enumStr); ok {
		return i.enumStrBinop(op, x, y)
	}
	if _, ok := x.(decStr); ok {
		if op == token.EQL || op == token.NEQ {
			return i.symBinop(op, t, x, y)
		}
		panic(unsupported{"operation on decimal token"})
	}
	if _, ok := y.(decStr); ok {
		if op == token.EQL || op == token.NEQ {
			return i.symBinop(op, t, x, y)
		}
		panic(unsupported{"operation on decimal token"})
	}
	if _, ok := x.(opaqueStr); ok {
		if op == token.ADD {
			return x
		}
		panic(unsupported{"operation on opaque string"})
	}
	if _, ok := y.(opaqueStr); ok {
		if op == token.ADD {
			return y
		}
		panic(unsupported{"operation on opaque string"})
	}
	return binop(op, t, x, y)
}

// binop implements all arithmetic and logical binary operators for
// numeric datatypes and strings.  Both operands must have identical
// dynamic type.
func binop(op token.Token, t types.Type, x, y value) value {
	switch op {
	case token.ADD:
		switch x.(type) {
		case int:
			return x.(int) + y.(int)
		case int8:
			return x.(int8) + y.(int8)
		case int16:
			return x.(int16) + y.(int16)
		case int32:
			return x.(int32) + y.(int32)
		case int64:
			return x.(int64) + y.(int64)
		case uint:
			return x.(uint) + y.(uint)
		case uint8:
			return x.(uint8) + y.(uint8)
		case uint16:
			return x.(uint16) + y.(uint16)
		case uint32:
			return x.(uint32) + y.(uint32)
		case uint64:
			return x.(uint64) + y.(uint64)
		case uintptr:
			return x.(uintptr) + y.(uintptr)
		case float32:
			return x.(float32) + y.(float32)
		case float64:
			return x.(float64) + y.(float64)
		case complex64:
			return x.(complex64) + y.(complex64)
		case complex128:
			return x.(complex128) + y.(complex128)
		case string:
			return x.(string) + y.(string)
		}

	case token.SUB:
		switch x.(type) {
		case int:
			return x.(int) - y.(int)
		case int8:
			return x.(int8) - y.(int8)
		case int16:
			return x.(int16) - y.(int16)
		case int32:
			return x.(int32) - y.(int32)
		case int64:
			return x.(int64) - y.(int64)
		case uint:
			return x.(uint) - y.(uint)
		case uint8:
			return x.(uint8) - y.(uint8)
		case uint16:
			return x.(uint16) - y.(uint16)
		case uint32:
			return x.(uint32) - y.(uint32)
		case uint64:
			return x.(uint64) - y.(uint64)
		case uintptr:
			return x.(uintptr) - y.(uintptr)
		case float32:
			return x.(float32) - y.(float32)
		case float64:
			return x.(float64) - y.(float64)
		case complex64:
			return x.(complex64) - y.(complex64)
		case complex128:
			return x.(complex128) - y.(complex128)
		}

	case token.MUL:
		switch x.(type) {
		case int:
			return x.(int) * y.(int)
		case int8:
			return x.(int8) * y.(int8)
		case int16:
			return x.(int16) * y.(int16)
		case int32:
			return x.(int32) * y.(int32)
		case int64:
			return x.(int64) * y.(int64)
		case uint:
			return x.(uint) * y.(uint)
		case uint8:
			return x.(uint8) * y.(uint8)
		case uint16:
			return x.(uint16) * y.(uint16)
		case uint32:
			return x.(uint32) * y.(uint32)
		case uint64:
			return x.(uint64) * y.(uint64)
		case uintptr:
			return x.(uintptr) * y.(uintptr)
		case float32:
			return x.(float32) * y.(float32)
		case float64:
			return x.(float64) * y.(float64)
		case complex64:
			return x.(complex64) * y.(complex64)
		case complex128:
			return x.(complex128) * y.(complex128)
		}

	case token.QUO:
		switch x.(type) {
		case int:
			return x.(int) / y.(int)
		case int8:
			return x.(int8) / y.(int8)
		case int16:
			return x.(int16) / y.(int16)
		case int32:
			return x.(int32) / y.(int32)
		case int64:
			return x.(int64) / y.(int64)
		case uint:
			return x.(uint) / y.(uint)
		case uint8:
			return x.(uint8) / y.(uint8)
		case uint16:
			return x.(uint16) / y.(uint16)
		case uint32:
			return x.(uint32) / y.(uint32)
		case uint64:
			return x.(uint64) / y.(uint64)
		case uintptr:
			return x.(uintptr) / y.(uintptr)
		case float32:
			return x.(float32) / y.(float32)
		case float64:
			return x.(float64) / y.(float64)
		case complex64:
			return x.(complex64) / y.(complex64)
		case complex128:
			return x.(complex128) / y.(complex128)
		}

	case token.REM:
		switch x.(type) {
		case int:
			return x.(int) % y.(int)
		case int8:
			return x.(int8) % y.(int8)
		case int16:
			return x.(int16) % y.(int16)
		case int32:
			return x.(int32) % y.(int32)
		case int64:
			return x.(int64) % y.(int64)
		case uint:
			return x.(uint) % y.(uint)
		case uint8:
			return x.(uint8) % y.(uint8)
		case uint16:
			return x.(uint16) % y.(uint16)
		case uint32:
			return x.(uint32) % y.(uint32)
		case uint64:
			return x.(uint64) % y.(uint64)
		case uintptr:
			return x.(uintptr) % y.(uintptr)
		}

	case token.AND:
		switch x.(type) {
		case int:
			return x.(int) & y.(int)
		case int8:
			return x.(int8) & y.(int8)
		case int16:
			return x.(int16) & y.(int16)
		case int32:
			return x.(int32) & y.(int32)
		case int64:
			return x.(int64) & y.(int64)
		case uint:
			return x.(uint) & y.(uint)
		case uint8:
			return x.(uint8) & y.(uint8)
		case uint16:
			return x.(uint16) & y.(uint16)
		case uint32:
			return x.(uint32) & y.(uint32)
		case uint64:
			return x.(uint64) & y.(uint64)
		case uintptr:
			return x.(uintptr) & y.(uintptr)
		}

	case token.OR:
		switch x.(type) {
		case int:
			return x.(int) | y.(int)
		case int8:
			return x.(int8) | y.(int8)
		case int16:
			return x.(int16) | y.(int16)
		case int32:
			return x.(int32) | y.(int32)
		case int64:
			return x.(int64) | y.(int64)
		case uint:
			return x.(uint) | y.(uint)
		case uint8:
			return x.(uint8) | y.(uint8)
		case uint16:
			return x.(uint16) | y.(uint16)
		case uint32:
			return x.(uint32) | y.(uint32)
		case uint64:
			return x.(uint64) | y.(uint64)
		case uintptr:
			return x.(uintptr) | y.(uintptr)
		}

	case token.XOR:
		switch x.(type) {
		case int:
			return x.(int) ^ y.(int)
		case int8:
			return x.(int8) ^ y.(int8)
		case int16:
			return x.(int16) ^ y.(int16)
		case int32:
			return x.(int32) ^ y.(int32)
		case int64:
			return x.(int64) ^ y.(int64)
		case uint:
			return x.(uint) ^ y.(uint)
		case uint8:
			return x.(uint8) ^ y.(uint8)
		case uint16:
			return x.(uint16) ^ y.(uint16)
		case uint32:
			return x.(uint32) ^ y.(uint32)
		case uint64:
			return x.(uint64) ^ y.(uint64)
		case uintptr:
			return x.(uintptr) ^ y.(uintptr)
		}

	case token.AND_NOT:
		switch x.(type) {
		case int:
			return x.(int) &^ y.(int)
		case int8:
			return x.(int8) &^ y.(int8)
		case int16:
			return x.(int16) &^ y.(int16)
		case int32:
			return x.(int32) &^ y.(int32)
		case int64:
			return x.(int64) &^ y.(int64)
		case uint:
			return x.(uint) &^ y.(uint)
		case uint8:
			return x.(uint8) &^ y.(uint8)
		case uint16:
			return x.(uint16) &^ y.(uint16)
		case uint32:
			return x.(uint32) &^ y.(uint32)
		case uint64:
			return x.(uint64) &^ y.(uint64)
		case uintptr:
			return x.(uintptr) &^ y.(uintptr)
		}

	case token.SHL:
		u, ok := asUnsigned(y)
		if !ok {
			panic("negative shift amount")
		}
		y := asUint64(u)
		switch x.(type) {
		case int:
			return x.(int) << y
		case int8:
			return x.(int8) << y
		case int16:
			return x.(int16) << y
		case int32:
			return x.(int32) << y
		case int64:
			return x.(int64) << y
		case uint:
			return x.(uint) << y
		case uint8:
			return x.(uint8) << y
		case uint16:
			return x.(uint16) << y
		case uint32:
			return x.(uint32) << y
		case uint64:
			return x.(uint64) << y
		case uintptr:
			return x.(uintptr) << y
		}

	case token.SHR:
		u, ok := asUnsigned(y)
		if !ok {
			panic("negative shift amount")
		}
		y := asUint64(u)
		switch x.(type) {
		case int:
			return x.(int) >> y
		case int8:
			return x.(int8) >> y
		case int16:
			return x.(int16) >> y
		case int32:
			return x.(int32) >> y
		case int64:
			return x.(int64) >> y
		case uint:
			return x.(uint) >> y
		case uint8:
			return x.(uint8) >> y
		case uint16:
			return x.(uint16) >> y
		case uint32:
			return x.(uint32) >> y
		case uint64:
			return x.(uint64) >> y
		case uintptr:
			return x.(uintptr) >> y
		}

	case token.LSS:
		switch x.(type) {
		case int:
			return x.(int) < y.(int)
		case int8:
			return x.(int8) < y.(int8)
		case int16:
			return x.(int16) < y.(int16)
		case int32:
			return x.(int32) < y.(int32)
		case int64:
			return x.(int64) < y.(int64)
		case uint:
			return x.(uint) < y.(uint)
		case uint8:
			return x.(uint8) < y.(uint8)
		case uint16:
			return x.(uint16) < y.(uint16)
		case uint32:
			return x.(uint32) < y.(uint32)
		case uint64:
			return x.(uint64) < y.(uint64)
		case uintptr:
			return x.(uintptr) < y.(uintptr)
		case float32:
			return x.(float32) < y.(float32)
		case float64:
			return x.(float64) < y.(float64)
		case string:
			return x.(string) < y.(string)
		}

	case token.LEQ:
		switch x.(type) {
		case int:
			return x.(int) <= y.(int)
		case int8:
			return x.(int8) <= y.(int8)
		case int16:
			return x.(int16) <= y.(int16)
		case int32:
			return x.(int32) <= y.(int32)
		case int64:
			return x.(int64) <= y.(int64)
		case uint:
			return x.(uint) <= y.(uint)
		case uint8:
			return x.(uint8) <= y.(uint8)
		case uint16:
			return x.(uint16) <= y.(uint16)
		case uint32:
			return x.(uint32) <= y.(uint32)
		case uint64:
			return x.(uint64) <= y.(uint64)
		case uintptr:
			return x.(uintptr) <= y.(uintptr)
		case float32:
			return x.(float32) <= y.(float32)
		case float64:
			return x.(float64) <= y.(float64)
		case string:
			return x.(string) <= y.(string)
		}

	case token.EQL:
		return eqnil(t, x, y)

	case token.NEQ:
		return !eqnil(t, x, y)

	case token.GTR:
		switch x.(type) {
		case int:
			return x.(int) > y.(int)
		case int8:
			return x.(int8) > y.(int8)
		case int16:
			return x.(int16) > y.(int16)
		case int32:
			return x.(int32) > y.(int32)
		case int64:
			return x.(int64) > y.(int64)
		case uint:
			return x.(uint) > y.(uint)
		case uint8:
			return x.(uint8) > y.(uint8)
		case uint16:
			return x.(uint16) > y.(uint16)
		case uint32:
			return x.(uint32) > y.(uint32)
		case uint64:
			return x.(uint64) > y.(uint64)
		case uintptr:
			return x.(uintptr) > y.(uintptr)
		case float32:
			return x.(float32) > y.(float32)
		case float64:
			return x.(float64) > y.(float64)
		case string:
			return x.(string) > y.(string)
		}

	case token.GEQ:
		switch x.(type) {
		case int:
			return x.(int) >= y.(int)
		case int8:
			return x.(int8) >= y.(int8)
		case int16:
			return x.(int16) >= y.(int16)
		case int32:
			return x.(int32) >= y.(int32)
		case int64:
			return x.(int64) >= y.(int64)
		case uint:
			return x.(uint) >= y.(uint)
		case uint8:
			return x.(uint8) >= y.(uint8)
		case uint16:
			return x.(uint16) >= y.(uint16)
		case uint32:
			return x.(uint32) >= y.(uint32)
		case uint64:
			return x.(uint64) >= y.(uint64)
		case uintptr:
			return x.(uintptr) >= y.(uintptr)
		case float32:
			return x.(float32) >= y.(float32)
		case float64:
			return x.(float64) >= y.(float64)
		case string:
			return x.(string) >= y.(string)
		}
	}
	panic(fmt.Sprintf("invalid binary op: %T %s %T", x, op, y))
}

// eqnil returns the comparison x == y using the equivalence relation
// appropriate for type t.
// If t is a reference type, at most one of x or y may be a nil value
// of that type.
func eqnil(t types.Type, x, y value) bool {
	switch t.Underlying().(type) {
	case *types.Map, *types.Signature, *types.Slice:
		// Since these types don't support comparison,
		// one of the operands must be a literal nil.
		switch x := x.(type) {
		case *hashmap:
			return (x != nil) == (y.(*hashmap) != nil)
		case *ssa.Function:
			switch y := y.(type) {
			case *ssa.Function:
				return (x != nil) == (y != nil)
			case *closure:
				return (x != nil) == (y != nil)
			}
		case *closure:
			switch y := y.(type) {
			case *ssa.Function:
				return (x != nil) == (y != nil)
			case *closure:
				return (x != nil) == (y != nil)
			}
		case []value:
			return (x != nil) == (y.([]value) != nil)
		}
		panic(fmt.Sprintf("eqnil(%s): illegal dynamic type: %T", t, x))
	}

	return equals(t, x, y)
}

func (i *interpreter) unop(fr *frame, instr *ssa.UnOp, x value) value {
	if isSym(x) {
		return symUnop(instr.Op, x)
	}
	switch instr.Op {
	case token.ARROW: // receive
		v, ok := i.chanRecv(x.(*channel))
		if !ok {
			v = zero(instr.X.Type().Underlying().(*types.Chan).Elem())
		}
		if instr.CommaOk {
			v = tuple{v, ok}
		}
		return v
	case token.SUB:
		switch x := x.(type) {
		case int:
			return -x
		case int8:
			return -x
		case int16:
			return -x
		case int32:
			return -x
		case int64:
			return -x
		case uint:
			return -x
		case uint8:
			return -x
		case uint16:
			return -x
		case uint32:
			return -x
		case uint64:
			return -x
		case uintptr:
			return -x
		case float32:
			return -x
		case float64:
			return -x
		case complex64:
			return -x
		case complex128:
			return -x
		}
	case token.MUL:
		p := x.(*value)
		if p == nil {
			panic(runtimeErrorString("runtime error: invalid memory address or nil pointer dereference"))
		}
		return load(mustDeref(instr.X.Type()), p)
	case token.NOT:
		return !x.(bool)
	case token.XOR:
		switch x := x.(type) {
		case int:
			return ^x
		case int8:
			return ^x
		case int16:
			return ^x
		case int32:
			return ^x
		case int64:
			return ^x
		case uint:
			return ^x
		case uint8:
			return ^x
		case uint16:
			return ^x
		case uint32:
			return ^x
		case uint64:
			return ^x
		case uintptr:
			return ^x
		}
	}
	panic(fmt.Sprintf("invalid unary op %s %T", instr.Op, x))
}

// typeAssert checks whether dynamic type of itf is instr.AssertedType.
// It returns the extracted value on success, and panics on failure,
// unless instr.CommaOk, in which case it always returns a "value,ok" tuple.
func typeAssert(i *interpreter, instr *ssa.TypeAssert, itf iface) value {
	var v value
	err := ""
	if itf.t == nil {
		err = fmt.Sprintf("interface conversion: interface is nil, not %s", instr.AssertedType)

	} else if idst, ok := instr.AssertedType.Underlying().(*types.Interface); ok {
		v = itf
		err = checkInterface(i, idst, itf)

	} else if types.Identical(itf.t, instr.AssertedType) {
		v = itf.v // extract value

	} else {
		err = fmt.Sprintf("interface conversion: interface is %s, not %s", itf.t, instr.AssertedType)
	}
	// Note: if instr.Underlying==true ever becomes reachable from interp check that
	// types.Identical(itf.t.Underlying(), instr.AssertedType)

	if err != "" {
		if !instr.CommaOk {
			panic(runtimeErrorString(err))
		}
		return tuple{zero(instr.AssertedType), false}
	}
	if instr.CommaOk {
		return tuple{v, true}
	}
	return v
}

// This variable is no longer used but remains to prevent build breakage.
var CapturedOutput *bytes.Buffer

// callBuiltin interprets a call to builtin fn with arguments args,
// returning its result.
func (i *interpreter) callBuiltin(caller *frame, callpos token.Pos, fn *ssa.Builtin, args []value) value {
	switch fn.Name() {
	case "append":
		if len(args) == 1 {
			return args[0]
		}
		if ss, ok := args[1].(symStr); ok {
			return i.appendSlice(fn, args[0].([]value), ss.bs)
		}
		if s, ok := args[1].(string); ok {
			// append([]byte, ...string) []byte
			arg0 := args[0].([]value)
			extra := make([]value, len(s))
			for j := 0; j < len(s); j++ {
				extra[j] = s[j]
			}
			return i.appendSlice(fn, arg0, extra)
		}
		// append([]T, ...[]T) []T
		return i.appendSlice(fn, args[0].([]value), args[1].([]value))

	case "copy": // copy([]T, []T) int or copy([]byte, string) int
		src := args[1]
		if ss, ok := src.(symStr); ok {
			src = ss.bs
		}
		if _, ok := src.(string); ok {
			params := fn.Type().(*types.Signature).Params()
			src = i.conv(params.At(0).Type(), params.At(1).Type(), src)
		}
		return copy(args[0].([]value), src.([]value))

	case "close": // close(chan T)
		i.chanClose(args[0].(*channel))
		return nil

	case "delete": // delete(map[K]value, K)
		switch m := args[0].(type) {
		case *hashmap:
			i.mapDelete(m, args[1])
		default:
			panic(fmt.Sprintf("illegal map type: %T", m))
		}
		return nil

	case "print", "println": // print(any, ...)
		ln := fn.Name() == "println"
		var buf bytes.Buffer
		for i, arg := range args {
			if i > 0 && ln {
				buf.WriteRune(' ')
			}
			buf.WriteString(toString(arg))
		}
		if ln {
			buf.WriteRune('\n')
		}
		if i.mode&EnableTracing != 0 {
			os.Stderr.Write(buf.Bytes())
		}
		return nil

	case "len":
		switch x := args[0].(type) {
		case string:
			return len(x)
		case array:
			return len(x)
		case *value:
			return len((*x).(array))
		case []value:
			return len(x)
		case *hashmap:
			return x.len()
		case *channel:
			return x.length()
		case opaqueStr:
			panic(unsupported{"len of opaque string: " + x.desc})
		case symStr:
			return len(x.bs)
		case enumStr:
			panic(unsupported{"len of an enumerated symbolic string"})
		default:
			panic(fmt.Sprintf("len: illegal operand: %T", x))
		}

	case "cap":
		switch x := args[0].(type) {
		case array:
			return len(x)
		case *value:
			return len((*x).(array))
		case []value:
			return cap(x)
		case *channel:
			return x.capacity()
		default:
			panic(fmt.Sprintf("cap: illegal operand: %T", x))
		}

	case "min":
		if containsSym(tuple(args)) {
			return i.symMinMax(token.LSS, args)
		}
		return foldLeft(min, args)
	case "max":
		if containsSym(tuple(args)) {
			return i.symMinMax(token.GTR, args)
		}
		return foldLeft(max, args)

	case "real":
		switch c := args[0].(type) {
		case complex64:
			return real(c)
		case complex128:
			return real(c)
		default:
			panic(fmt.Sprintf("real: illegal operand: %T", c))
		}

	case "imag":
		switch c := args[0].(type) {
		case complex64:
			return imag(c)
		case complex128:
			return imag(c)
		default:
			panic(fmt.Sprintf("imag: illegal operand: %T", c))
		}

	case "complex":
		switch f := args[0].(type) {
		case float32:
			return complex(f, args[1].(float32))
		case float64:
			return complex(f, args[1].(float64))
		default:
			panic(fmt.Sprintf("complex: illegal operand: %T", f))
		}

	case "panic":
		// ssa.Panic handles most cases; this is only for "go
		// panic" or "defer panic".
		panic(targetPanic{args[0]})

	case "recover":
		return doRecover(caller)

	case "ssa:wrapnilchk":
		recv := args[0]
		if recv.(*value) == nil {
			recvType := args[1]
			methodName := args[2]
			panic(runtimeErrorString(fmt.Sprintf("runtime error: value method (%s).%s called using nil *%s pointer",
				recvType, methodName, recvType)))
		}
		return recv

	case "ssa:deferstack":
		return &caller.defers
	}

	panic("unknown built-in: " + fn.Name())
}

func rangeIter(x value, t types.Type) iter {
	switch x := x.(type) {
	case *hashmap:
		return x.iterator()
	case string:
		return &stringIter{Reader: strings.NewReader(x)}
	case opaqueStr:
		panic(unsupported{"range over opaque string"})
	}
	panic(fmt.Sprintf("cannot range over %T", x))
}

// widen widens a basic typed value x to the widest type of its
// category, one of:
//
//	bool, int64, uint64, float64, complex128, string.
//
// This is inefficient but reduces the size of the cross-product of
// cases we have to consider.
func widen(x value) value {
	switch y := x.(type) {
	case bool, int64, uint64, float64, complex128, string, unsafe.Pointer:
		return x
	case int:
		return int64(y)
	case int8:
		return int64(y)
	case int16:
		return int64(y)
	case int32:
		return int64(y)
	case uint:
		return uint64(y)
	case uint8:
		return uint64(y)
	case uint16:
		return uint64(y)
	case uint32:
		return uint64(y)
	case uintptr:
		return uint64(y)
	case float32:
		return float64(y)
	case complex64:
		return complex128(y)
	}
	panic(fmt.Sprintf("cannot widen %T", x))
}

// conv converts the value x of type t_src to type t_dst and returns
// the result.
// Possible cases are described with the ssa.Convert operator.
func (i *interpreter) conv(t_dst, t_src types.Type, x value) value {
	switch x := x.(type) {
	case symv:
		return symConv(t_dst, x)
	case opaqueStr:
		if _, ok := t_dst.Underlying().(*types.Basic); ok {
			return x
		}
		panic(unsupported{"conversion of opaque string to " + t_dst.String()})
	case []value:
		if b, ok := t_dst.Underlying().(*types.Basic); ok && b.Kind() == types.String && containsSym(x) {
			if sl, ok := t_src.Underlying().(*types.Slice); ok {
				if eb, ok := sl.Elem().Underlying().(*types.Basic); ok && eb.Kind() == types.Uint8 {
					return symStr{append([]value(nil), x...)}
				}
			}
			return opaqueStr{"string([]rune) with symbolic elements"}
		}
	case symStr:
		switch d := t_dst.Underlying().(type) {
		case *types.Basic:
			if d.Kind() == types.String {
				return x
			}
		case *types.Slice:
			if eb, ok := d.Elem().Underlying().(*types.Basic); ok && eb.Kind() == types.Uint8 {
				return append([]value(nil), x.bs...)
			}
		}
		panic(unsupported{"conversion of a symbolic string to " + t_dst.String()})
	}
	return conv(t_dst, t_src, x)
}

func conv(t_dst, t_src types.Type, x value) value {
	ut_src := t_src.Underlying()
	ut_dst := t_dst.Underlying()

	// Destination type is not an "untyped" type.
	if b, ok := ut_dst.(*types.Basic); ok && b.Info()&types.IsUntyped != 0 {
		panic("oops: conversion to 'untyped' type: " + b.String())
	}

	// Nor is it an interface type.
	if _, ok := ut_dst.(*types.Interface); ok {
		if _, ok := ut_src.(*types.Interface); ok {
			panic("oops: Convert should be ChangeInterface")
		} else {
			panic("oops: Convert should be MakeInterface")
		}
	}

	// Remaining conversions:
	//    + untyped string/number/bool constant to a specific
	//      representation.
	//    + conversions between non-complex numeric types.
	//    + conversions between complex numeric types.
	//    + integer/[]byte/[]rune -> string.
	//    + string -> []byte/[]rune.
	//
	// All are treated the same: first we extract the value to the
	// widest representation (int64, uint64, float64, complex128,
	// or string), then we convert it to the desired type.

	switch ut_src := ut_src.(type) {
	case *types.Pointer:
		switch ut_dst := ut_dst.(type) {
		case *types.Basic:
			// *value to unsafe.Pointer?
			if ut_dst.Kind() == types.UnsafePointer {
				return unsafe.Pointer(x.(*value))
			}
		}

	case *types.Slice:
		// []byte or []rune -> string
		switch ut_src.Elem().Underlying().(*types.Basic).Kind() {
		case types.Byte:
			x := x.([]value)
			b := make([]byte, 0, len(x))
			for i := range x {
				b = append(b, x[i].(byte))
			}
			return string(b)

		case types.Rune:
			x := x.([]value)
			r := make([]rune, 0, len(x))
			for i := range x {
				r = append(r, x[i].(rune))
			}
			return string(r)
		}

	case *types.Basic:
		x = widen(x)

		// integer -> string?
		if ut_src.Info()&types.IsInteger != 0 {
			if ut_dst, ok := ut_dst.(*types.Basic); ok && ut_dst.Kind() == types.String {
				return fmt.Sprintf("%c", x)
			}
		}

		// string -> []rune, []byte or string?
		if s, ok := x.(string); ok {
			switch ut_dst := ut_dst.(type) {
			case *types.Slice:
				var res []value
				switch ut_dst.Elem().Underlying().(*types.Basic).Kind() {
				case types.Rune:
					for _, r := range []rune(s) {
						res = append(res, r)
					}
					return res
				case types.Byte:
					for _, b := range []byte(s) {
						res = append(res, b)
					}
					return res
				}
			case *types.Basic:
				if ut_dst.Kind() == types.String {
					return x.(string)
				}
			}
			break // fail: no other conversions for string
		}

		// unsafe.Pointer -> *value
		if ut_src.Kind() == types.UnsafePointer {
			// TODO(adonovan): this is wrong and cannot
			// really be fixed with the current design.
			//
			// return (*value)(x.(unsafe.Pointer))
			// creates a new pointer of a different
			// type but the underlying interface value
			// knows its "true" type and so cannot be
			// meaningfully used through the new pointer.
			//
			// To make this work, the interpreter needs to
			// simulate the memory layout of a real
			// compiled implementation.
			//
			// To at least preserve type-safety, we'll
			// just return the zero value of the
			// destination type.
			return zero(t_dst)
		}

		// Conversions between complex numeric types?
		if ut_src.Info()&types.IsComplex != 0 {
			switch ut_dst.(*types.Basic).Kind() {
			case types.Complex64:
				return complex64(x.(complex128))
			case types.Complex128:
				return x.(complex128)
			}
			break // fail: no other conversions for complex
		}

		// Conversions between non-complex numeric types?
		if ut_src.Info()&types.IsNumeric != 0 {
			kind := ut_dst.(*types.Basic).Kind()
			switch x := x.(type) {
			case int64: // signed integer -> numeric?
				switch kind {
				case types.Int:
					return int(x)
				case types.Int8:
					return int8(x)
				case types.Int16:
					return int16(x)
				case types.Int32:
					return int32(x)
				case types.Int64:
					return int64(x)
				case types.Uint:
					return uint(x)
				case types.Uint8:
					return uint8(x)
				case types.Uint16:
					return uint16(x)
				case types.Uint32:
					return uint32(x)
				case types.Uint64:
					return uint64(x)
				case types.Uintptr:
					return uintptr(x)
				case types.Float32:
					return float32(x)
				case types.Float64:
					return float64(x)
				}

			case uint64: // unsigned integer -> numeric?
				switch kind {
				case types.Int:
					return int(x)
				case types.Int8:
					return int8(x)
				case types.Int16:
					return int16(x)
				case types.Int32:
					return int32(x)
				case types.Int64:
					return int64(x)
				case types.Uint:
					return uint(x)
				case types.Uint8:
					return uint8(x)
				case types.Uint16:
					return uint16(x)
				case types.Uint32:
					return uint32(x)
				case types.Uint64:
					return uint64(x)
				case types.Uintptr:
					return uintptr(x)
				case types.Float32:
					return float32(x)
				case types.Float64:
					return float64(x)
				}

			case float64: // floating point -> numeric?
				switch kind {
				case types.Int:
					return int(x)
				case types.Int8:
					return int8(x)
				case types.Int16:
					return int16(x)
				case types.Int32:
					return int32(x)
				case types.Int64:
					return int64(x)
				case types.Uint:
					return uint(x)
				case types.Uint8:
					return uint8(x)
				case types.Uint16:
					return uint16(x)
				case types.Uint32:
					return uint32(x)
				case types.Uint64:
					return uint64(x)
				case types.Uintptr:
					return uintptr(x)
				case types.Float32:
					return float32(x)
				case types.Float64:
					return float64(x)
				}
			}
		}
	}

	panic(fmt.Sprintf("unsupported conversion: %s  -> %s, dynamic type %T", t_src, t_dst, x))
}

// sliceToArrayPointer converts the value x of type slice to type t_dst
// a pointer to array and returns the result.
func sliceToArrayPointer(t_dst, t_src types.Type, x value) value {
	if _, ok := t_src.Underlying().(*types.Slice); ok {
		if ptr, ok := t_dst.Underlying().(*types.Pointer); ok {
			if arr, ok := ptr.Elem().Underlying().(*types.Array); ok {
				x := x.([]value)
				if arr.Len() > int64(len(x)) {
					panic("array length is greater than slice length")
				}
				if x == nil {
					return zero(t_dst)
				}
				v := value(array(x[:arr.Len()]))
				return &v
			}
		}
	}

	panic(fmt.Sprintf("unsupported conversion: %s  -> %s, dynamic type %T", t_src, t_dst, x))
}

// checkInterface checks that the method set of x implements the
// interface itype.
// On success it returns "", on failure, an error message.
func checkInterface(i *interpreter, itype *types.Interface, x iface) string {
	if meth, _ := types.MissingMethod(x.t, itype, true); meth != nil {
		return fmt.Sprintf("interface conversion: %v is not %v: missing method %s",
			x.t, itype, meth.Name())
	}
	return "" // ok
}

func foldLeft(op func(value, value) value, args []value) value {
	x := args[0]
	for _, arg := range args[1:] {
		x = op(x, arg)
	}
	return x
}

func min(x, y value) value {
	switch x := x.(type) {
	case float32:
		return fmin(x, y.(float32))
	case float64:
		return fmin(x, y.(float64))
	}

	// return (y < x) ? y : x
	if binop(token.LSS, nil, y, x).(bool) {
		return y
	}
	return x
}

func max(x, y value) value {
	switch x := x.(type) {
	case float32:
		return fmax(x, y.(float32))
	case float64:
		return fmax(x, y.(float64))
	}

	// return (y > x) ? y : x
	if binop(token.GTR, nil, y, x).(bool) {
		return y
	}
	return x
}

// copied from $GOROOT/src/runtime/minmax.go

type floaty interface{ ~float32 | ~float64 }

func fmin[F floaty](x, y F) F {
	if y != y || y < x {
		return y
	}
	if x != x || x < y || x != 0 {
		return x
	}
	// x and y are both ±0
	// if either is -0, return -0; else return +0
	return forbits(x, y)
}

func fmax[F floaty](x, y F) F {
	if y != y || y > x {
		return y
	}
	if x != x || x > y || x != 0 {
		return x
	}
	// x and y are both ±0
	// if both are -0, return -0; else return +0
	return fandbits(x, y)
}

func forbits[F floaty](x, y F) F {
	switch unsafe.Sizeof(x) {
	case 4:
		*(*uint32)(unsafe.Pointer(&x)) |= *(*uint32)(unsafe.Pointer(&y))
	case 8:
		*(*uint64)(unsafe.Pointer(&x)) |= *(*uint64)(unsafe.Pointer(&y))
	}
	return x
}

func fandbits[F floaty](x, y F) F {
	switch unsafe.Sizeof(x) {
	case 4:
		*(*uint32)(unsafe.Pointer(&x)) &= *(*uint32)(unsafe.Pointer(&y))
	case 8:
		*(*uint64)(unsafe.Pointer(&x)) &= *(*uint64)(unsafe.Pointer(&y))
	}
	return x
}

func (i *interpreter) symStrBinop(op token.Token, x, y value) value {
	xb, okx := strBytes(x)
	yb, oky := strBytes(y)
	if !okx || !oky {
		panic(unsupported{fmt.Sprintf("symbolic string %s with %T/%T", op, x, y)})
	}
	switch op {
	case token.ADD:
		return mkStr(append(append([]value(nil), xb...), yb...))
	case token.EQL, token.NEQ:
		var t *Term
		if len(xb) != len(yb) {
			t = FalseT
		} else {
			var cs []*Term
			for k := range xb {
				cs = append(cs, i.symEq(nil, xb[k], yb[k]))
			}
			t = And(cs...)
		}
		if op == token.NEQ {
			t = Not(t)
		}
		return mkBool(t)
	}
	panic(unsupported{fmt.Sprintf("operator %s on a symbolic string", op)})
}

func (i *interpreter) enumStrBinop(op token.Token, x, y value) value {
	if op != token.EQL && op != token.NEQ {
		panic(unsupported{fmt.Sprintf("operator %s on an enumerated symbolic string", op)})
	}
	e, ok := x.(enumStr)
	other := y
	if !ok {
		e, other = y.(enumStr), x
	}
	s := goString(other, "comparison with enumerated string")
	var cs []*Term
	for k, ts := range e.table {
		if ts == s {
			cs = append(cs, Eq(e.idx, BVConst(8, uint64(k))))
		}
	}
	t := Or(cs...)
	if op == token.NEQ {
		t = Not(t)
	}
	return mkBool(t)
}

// symMinMax: the builtins min/max over integers with symbolic operands, as a chain of
// if-then-else terms (no fork).
func (i *interpreter) symMinMax(cmp token.Token, args []value) value {
	acc := args[0]
	for _, b := range args[1:] {
		k, ta, ok1 := intTerm(acc)
		_, tb, ok2 := intTerm(b)
		if !ok1 || !ok2 {
			panic(unsupported{"min/max on symbolic non-integers"})
		}
		c, ok := boolTerm(i.binop(cmp, nil, acc, b))
		if !ok {
			panic(unsupported{"min/max: comparison did not yield a boolean"})
		}
		if ks, isSym := acc.(symv); isSym {
			k = ks.k
		} else if ks, isSym := b.(symv); isSym {
			k = ks.k
		}
		if ta.sort == SInt || tb.sort == SInt {
			// integer-encoding mode: both branches as mathematical integers
			ta, tb = toIntSort(ta), toIntSort(tb)
		}
		acc = mkInt(k, Ite(c, ta, tb))
	}
	return acc
}
