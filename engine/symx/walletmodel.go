package symx

// Redirection of the wallet libraries' entry points to the harness-side wallet
// model (zzverif/stubs), and a minimal encoding/json.Unmarshal for the flat
// descriptor struct dirk's fetcher decodes.

import (
	"encoding/json"
	"fmt"
	"go/types"
	"reflect"
	"strings"

	"golang.org/x/tools/go/ssa"
)

const stubsPkg = "github.com/attestantio/dirk/zzverif/stubs"

func (i *interpreter) stubFunc(name string) *ssa.Function {
	f := i.P.FindFunc(stubsPkg, name)
	if f == nil {
		panic(unsupported{"wallet model: " + stubsPkg + "." + name + " is not loaded (harness must import the stubs package)"})
	}
	return f
}

func addWalletModel(P *Program) {
	h := P.hooks
	// go-eth2-wallet.OpenWallet(name, opts...): apply the options to find the store
	h["github.com/wealdtech/go-eth2-wallet.OpenWallet"] = func(i *interpreter, fr *frame, fn *ssa.Function, args []value) value {
		var store value = iface{}
		opts, _ := args[1].([]value)
		for _, o := range opts {
			itf, ok := o.(iface)
			if !ok || itf.t == nil {
				continue
			}
			f, ok := i.callMethodLookup(itf, "apply")
			if !ok {
				continue
			}
			pt, ok := f.Signature.Params().At(0).Type().Underlying().(*types.Pointer)
			if !ok {
				continue
			}
			cell := zero(pt.Elem())
			call(i, fr, 0, f, []value{itf.v, &cell})
			st := pt.Elem().Underlying().(*types.Struct)
			for k := 0; k < st.NumFields(); k++ {
				if st.Field(k).Name() == "store" {
					store = cell.(structure)[k]
				}
			}
		}
		return call(i, fr, 0, i.stubFunc("OpenWallet"), []value{store, args[0]})
	}
	open4 := func(i *interpreter, fr *frame, fn *ssa.Function, args []value) value {
		return call(i, fr, 0, i.stubFunc("OpenWallet"), []value{args[2], args[1]})
	}
	deser := func(i *interpreter, fr *frame, fn *ssa.Function, args []value) value {
		return call(i, fr, 0, i.stubFunc("WalletFromBytes"), []value{args[2], args[1]})
	}
	for _, lib := range []string{"github.com/wealdtech/go-eth2-wallet-distributed", "github.com/wealdtech/go-eth2-wallet-nd/v2",
		"github.com/wealdtech/go-eth2-wallet-hd/v2", "github.com/wealdtech/go-eth2-wallet-keystore"} {
		h[lib+".OpenWallet"] = open4
		h[lib+".DeserializeWallet"] = deser
	}

	// the scratch store: the next store the harness has prepared (stubs.NextScratchStore)
	h["github.com/wealdtech/go-eth2-wallet-store-scratch.New"] = func(i *interpreter, fr *frame, fn *ssa.Function, args []value) value {
		return call(i, fr, 0, i.stubFunc("NextScratchStore"), nil)
	}
	h["github.com/wealdtech/go-eth2-wallet-encryptor-keystorev4.New"] = func(i *interpreter, fr *frame, fn *ssa.Function, args []value) value {
		cell := zero(mustDeref(fn.Signature.Results().At(0).Type()))
		return &cell
	}
	// encoding/json.Unmarshal into a pointer to a flat struct of strings / [16]byte (uuid) fields
	h["encoding/json.Unmarshal"] = func(i *interpreter, fr *frame, fn *ssa.Function, args []value) value {
		data := goBytes(args[0], "json.Unmarshal")
		target, ok := args[1].(iface)
		if !ok || target.t == nil {
			return i.mkError("json: Unmarshal(nil)")
		}
		pt, ok := target.t.Underlying().(*types.Pointer)
		if !ok {
			return i.mkError("json: Unmarshal(non-pointer)")
		}
		st, ok := pt.Elem().Underlying().(*types.Struct)
		if !ok {
			panic(unsupported{"json model: target is not a struct: " + target.t.String()})
		}
		var m map[string]interface{}
		if err := json.Unmarshal(data, &m); err != nil {
			return i.mkError(err.Error())
		}
		dst := (*target.v.(*value)).(structure)
		for k := 0; k < st.NumFields(); k++ {
			name := st.Field(k).Name()
			if tag := reflect.StructTag(st.Tag(k)).Get("json"); tag != "" {
				name = strings.Split(tag, ",")[0]
			}
			raw, present := m[name]
			if !present {
				for mk, mv := range m {
					if strings.EqualFold(mk, name) {
						raw, present = mv, true
					}
				}
			}
			if !present {
				continue
			}
			s, isStr := raw.(string)
			switch ft := st.Field(k).Type().Underlying().(type) {
			case *types.Basic:
				if ft.Kind() == types.String && isStr {
					dst[k] = s
					continue
				}
			case *types.Array:
				if ft.Len() == 16 && isStr { // uuid.UUID
					hexs := strings.ReplaceAll(s, "-", "")
					if len(hexs) != 32 {
						return i.mkError("invalid UUID length")
					}
					arr := make(array, 16)
					for b := 0; b < 16; b++ {
						var x byte
						if _, err := fmt.Sscanf(hexs[2*b:2*b+2], "%02x", &x); err != nil {
							return i.mkError("invalid UUID format")
						}
						arr[b] = x
					}
					dst[k] = arr
					continue
				}
			}
			panic(unsupported{"json model: field " + name + " of type " + st.Field(k).Type().String()})
		}
		return iface{}
	}
}
