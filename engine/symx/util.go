package symx

import (
	"fmt"
	"go/types"
)

// mustDeref returns the element type of pointer type t.
func mustDeref(t types.Type) types.Type {
	if p, ok := t.Underlying().(*types.Pointer); ok {
		return p.Elem()
	}
	panic(fmt.Sprintf("mustDeref: %v is not a pointer", t))
}
