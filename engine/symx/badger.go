package symx

// Model of the badger v2 API surface dirk uses.  Contract (part of every
// claim that touches storage): one committed key/value map per directory;
// Update(fn) commits fn's writes atomically iff fn returns nil; WriteBatch
// buffers until Flush; reopening a directory sees the committed map.  Fault
// mode lets every operation fail; crash mode lets the process die at every
// operation boundary, a Flush in flight committing an arbitrary subset.

import (
	"fmt"
	"go/types"
	"sort"

	"golang.org/x/tools/go/ssa"
)

const badgerPkg = "github.com/dgraph-io/badger/v2"

type kvStore struct {
	m map[string][]value
}

func (s *kvStore) keys() []string {
	ks := make([]string, 0, len(s.m))
	for k := range s.m {
		ks = append(ks, k)
	}
	sort.Strings(ks)
	return ks
}

type modelDB struct {
	dir       string
	committed *kvStore
	closed    bool
	syncWrite bool
	opens     int
}

type modelTxn struct {
	db      *modelDB
	update  bool
	pending map[string][]value
	order   []string
}

type modelItem struct {
	key string
	val []value
}

type modelIter struct {
	txn  *modelTxn
	keys []string
	pos  int
}

type modelBatch struct {
	db      *modelDB
	keys    []string
	vals    [][]value
	flushed bool
}

// BadgerLog records what the model saw, for harness assertions.
type badgerLog struct {
	opens       []bool // SyncWrites of each Open
	bypass      []bool // BypassLockGuard of each Open
	locks       map[string]*modelDB // directory -> handle holding badger's directory lock
	commits     int
	commitKeys  []string
	lastCommits []string
}

func fieldIndex(t types.Type, name string) int {
	st := t.Underlying().(*types.Struct)
	for k := 0; k < st.NumFields(); k++ {
		if st.Field(k).Name() == name {
			return k
		}
	}
	panic("no field " + name)
}

func handleOf(v value) interface{} {
	p, ok := v.(*value)
	if !ok || p == nil {
		panic(runtimeErrorString("runtime error: invalid memory address or nil pointer dereference"))
	}
	return (*p).(nativeHandle).v
}

func newHandle(x interface{}) *value {
	cell := value(nativeHandle{x})
	return &cell
}

func keyString(v value, what string) string {
	return string(goBytes(v, what))
}

func copyVals(v []value) []value {
	out := make([]value, len(v))
	copy(out, v)
	return out
}

func (i *interpreter) blog() *badgerLog {
	if l, ok := i.models["badgerlog"]; ok {
		return l.(*badgerLog)
	}
	l := &badgerLog{}
	i.models["badgerlog"] = l
	return l
}

func (i *interpreter) badgerErr(name string) value {
	g := i.P.badgerGlobals[name]
	if g == nil {
		return i.mkError("badger: " + name)
	}
	return *i.global(g)
}

func addBadgerModel(P *Program) {
	h := P.hooks
	P.badgerGlobals = map[string]*ssa.Global{}
	var bp *ssa.Package
	for _, p := range P.Prog.AllPackages() {
		if p.Pkg.Path() == badgerPkg {
			bp = p
		}
	}
	if bp == nil {
		return
	}
	for _, name := range []string{"ErrKeyNotFound", "ErrDBClosed", "ErrEmptyKey", "ErrReadOnlyTxn", "ErrDiscardedTxn", "ErrNoRewrite"} {
		if g, ok := bp.Members[name].(*ssa.Global); ok {
			P.badgerGlobals[name] = g
			msg := map[string]string{
				"ErrKeyNotFound": "Key not found", "ErrDBClosed": "DB Closed", "ErrEmptyKey": "Key cannot be empty",
				"ErrReadOnlyTxn": "No sets or deletes are allowed in a read-only transaction", "ErrDiscardedTxn": "This transaction has been discarded. Create a new one",
				"ErrNoRewrite": "Value log GC attempt didn't result in any cleanup",
			}[name]
			P.globalInit[g.String()] = func(i *interpreter, cell *value) { *cell = i.mkError(msg) }
		}
	}
	optType := bp.Type("Options").Object().Type()
	dirIdx := fieldIndex(optType, "Dir")
	vdirIdx := fieldIndex(optType, "ValueDir")
	syncIdx := fieldIndex(optType, "SyncWrites")
	bypassIdx := fieldIndex(optType, "BypassLockGuard")

	h[badgerPkg+".DefaultOptions"] = func(i *interpreter, fr *frame, fn *ssa.Function, args []value) value {
		o := zero(optType).(structure)
		o[dirIdx] = args[0]
		o[vdirIdx] = args[0]
		o[syncIdx] = true // badger v2's default
		return o
	}
	h["("+badgerPkg+".Options).WithLogger"] = func(i *interpreter, fr *frame, fn *ssa.Function, args []value) value {
		return args[0]
	}
	h["("+badgerPkg+".Options).WithSyncWrites"] = func(i *interpreter, fr *frame, fn *ssa.Function, args []value) value {
		o := append(structure(nil), args[0].(structure)...)
		o[syncIdx] = args[1]
		return o
	}
	h[badgerPkg+".Open"] = func(i *interpreter, fr *frame, fn *ssa.Function, args []value) value {
		o := args[0].(structure)
		dir := goString(o[dirIdx], "badger dir")
		l := i.blog()
		l.opens = append(l.opens, o[syncIdx].(bool))
		bypass, _ := o[bypassIdx].(bool)
		l.bypass = append(l.bypass, bypass)
		if i.fault("badger.Open") {
			return tuple{(*value)(nil), i.mkError("injected: badger.Open failed")}
		}
		// badger's directory lock: one open handle per directory unless the guard is bypassed
		if l.locks == nil {
			l.locks = map[string]*modelDB{}
		}
		if holder := l.locks[dir]; holder != nil && !holder.closed && !bypass {
			return tuple{(*value)(nil), i.mkError("Cannot acquire directory lock on \"" + dir + "\".  Another process is using this Badger database.: resource temporarily unavailable")}
		}
		key := "badger:" + dir
		var st *kvStore
		if s, ok := i.models[key]; ok {
			st = s.(*kvStore)
		} else {
			st = &kvStore{m: map[string][]value{}}
			i.models[key] = st
		}
		db := &modelDB{dir: dir, committed: st, syncWrite: o[syncIdx].(bool)}
		if !bypass {
			l.locks[dir] = db
		}
		return tuple{newHandle(db), iface{}}
	}
	h["(*"+badgerPkg+".DB).Close"] = func(i *interpreter, fr *frame, fn *ssa.Function, args []value) value {
		db := handleOf(args[0]).(*modelDB)
		db.closed = true
		return iface{}
	}
	h["(*"+badgerPkg+".DB).RunValueLogGC"] = func(i *interpreter, fr *frame, fn *ssa.Function, args []value) value {
		return i.badgerErr("ErrNoRewrite")
	}
	h["(*"+badgerPkg+".DB).View"] = func(i *interpreter, fr *frame, fn *ssa.Function, args []value) value {
		db := handleOf(args[0]).(*modelDB)
		i.yield("badger.View")
		i.crashPoint("badger.View")
		if db.closed {
			return i.badgerErr("ErrDBClosed")
		}
		if i.fault("badger.View") {
			return i.mkError("injected: badger.View failed")
		}
		txn := &modelTxn{db: db}
		return call(i, fr, 0, args[1], []value{newHandle(txn)})
	}
	h["(*"+badgerPkg+".DB).Update"] = func(i *interpreter, fr *frame, fn *ssa.Function, args []value) value {
		db := handleOf(args[0]).(*modelDB)
		i.yield("badger.Update")
		i.crashPoint("badger.Update/begin")
		if db.closed {
			return i.badgerErr("ErrDBClosed")
		}
		if i.fault("badger.Update") {
			return i.mkError("injected: badger.Update failed")
		}
		txn := &modelTxn{db: db, update: true, pending: map[string][]value{}}
		r := call(i, fr, 0, args[1], []value{newHandle(txn)})
		if e, ok := r.(iface); ok && e.t != nil {
			return r
		}
		i.crashPoint("badger.Update/before-commit")
		if i.fault("badger.Commit") {
			if i.fault("badger.Commit/persisted-anyway") {
				i.commit(db, txn.order, txn.pending)
			}
			return i.mkError("injected: badger commit failed")
		}
		i.commit(db, txn.order, txn.pending)
		i.crashPoint("badger.Update/after-commit")
		return iface{}
	}
	h["(*"+badgerPkg+".DB).NewTransaction"] = func(i *interpreter, fr *frame, fn *ssa.Function, args []value) value {
		db := handleOf(args[0]).(*modelDB)
		txn := &modelTxn{db: db, update: i.truth(args[1])}
		if txn.update {
			txn.pending = map[string][]value{}
		}
		return newHandle(txn)
	}
	h["(*"+badgerPkg+".Txn).Discard"] = func(i *interpreter, fr *frame, fn *ssa.Function, args []value) value { return nil }
	commitTxn := func(i *interpreter, txn *modelTxn, site string) value {
		i.yield(site)
		i.crashPoint(site + "/before-commit")
		if txn.db.closed {
			return i.badgerErr("ErrDBClosed")
		}
		if i.fault("badger.Commit") {
			if i.fault("badger.Commit/persisted-anyway") {
				i.commit(txn.db, txn.order, txn.pending)
			}
			return i.mkError("injected: badger commit failed")
		}
		i.commit(txn.db, txn.order, txn.pending)
		i.crashPoint(site + "/after-commit")
		return iface{}
	}
	h["(*"+badgerPkg+".Txn).Commit"] = func(i *interpreter, fr *frame, fn *ssa.Function, args []value) value {
		return commitTxn(i, handleOf(args[0]).(*modelTxn), "badger.Txn.Commit")
	}
	// CommitWith is badger's asynchronous commit: it returns at once; the write happens, and the
	// callback runs, on another goroutine
	h["(*"+badgerPkg+".Txn).CommitWith"] = func(i *interpreter, fr *frame, fn *ssa.Function, args []value) value {
		txn := handleOf(args[0]).(*modelTxn)
		cb := args[1]
		worker := &nativeFunc{name: "badger.CommitWith", f: func(i *interpreter, _ []value) value {
			res := commitTxn(i, txn, "badger.Txn.CommitWith")
			switch c := cb.(type) {
			case *ssa.Function:
				if c == nil {
					return nil
				}
			case *closure:
				if c == nil {
					return nil
				}
			}
			call(i, nil, 0, cb, []value{res})
			return nil
		}}
		i.spawnThread(0, worker, nil, false)
		return nil
	}
	h["(*"+badgerPkg+".Txn).Get"] = func(i *interpreter, fr *frame, fn *ssa.Function, args []value) value {
		txn := handleOf(args[0]).(*modelTxn)
		if len(args[1].([]value)) == 0 {
			return tuple{(*value)(nil), i.badgerErr("ErrEmptyKey")}
		}
		k := keyString(args[1], "badger key")
		if i.fault("badger.Get") {
			return tuple{(*value)(nil), i.mkError("injected: badger.Get failed")}
		}
		if txn.pending != nil {
			if v, ok := txn.pending[k]; ok {
				return tuple{newHandle(&modelItem{key: k, val: v}), iface{}}
			}
		}
		v, ok := txn.db.committed.m[k]
		if !ok {
			return tuple{(*value)(nil), i.badgerErr("ErrKeyNotFound")}
		}
		return tuple{newHandle(&modelItem{key: k, val: v}), iface{}}
	}
	h["(*"+badgerPkg+".Txn).Set"] = func(i *interpreter, fr *frame, fn *ssa.Function, args []value) value {
		txn := handleOf(args[0]).(*modelTxn)
		if !txn.update {
			return i.badgerErr("ErrReadOnlyTxn")
		}
		if len(args[1].([]value)) == 0 {
			return i.badgerErr("ErrEmptyKey")
		}
		if i.fault("badger.Set") {
			return i.mkError("injected: badger.Set failed")
		}
		k := keyString(args[1], "badger key")
		if _, ok := txn.pending[k]; !ok {
			txn.order = append(txn.order, k)
		}
		txn.pending[k] = copyVals(args[2].([]value))
		return iface{}
	}
	h["(*"+badgerPkg+".Item).Value"] = func(i *interpreter, fr *frame, fn *ssa.Function, args []value) value {
		it := handleOf(args[0]).(*modelItem)
		if i.fault("badger.Item.Value") {
			return i.mkError("injected: badger Item.Value failed")
		}
		// the slice handed to the callback is only valid inside it (badger reuses the buffer):
		// afterwards it holds other bytes, so code that keeps it without copying reads garbage
		buf := copyVals(it.val)
		r := call(i, fr, 0, args[1], []value{buf})
		for k := range buf {
			buf[k] = byte(0xdb)
		}
		return r
	}
	h["(*"+badgerPkg+".Item).ValueCopy"] = func(i *interpreter, fr *frame, fn *ssa.Function, args []value) value {
		it := handleOf(args[0]).(*modelItem)
		return tuple{copyVals(it.val), iface{}}
	}
	h["(*"+badgerPkg+".Item).Key"] = func(i *interpreter, fr *frame, fn *ssa.Function, args []value) value {
		it := handleOf(args[0]).(*modelItem)
		return fromBytes([]byte(it.key))
	}
	h["(*"+badgerPkg+".Txn).NewIterator"] = func(i *interpreter, fr *frame, fn *ssa.Function, args []value) value {
		txn := handleOf(args[0]).(*modelTxn)
		return newHandle(&modelIter{txn: txn, keys: txn.db.committed.keys()})
	}
	h["(*"+badgerPkg+".Iterator).Rewind"] = func(i *interpreter, fr *frame, fn *ssa.Function, args []value) value {
		handleOf(args[0]).(*modelIter).pos = 0
		return nil
	}
	h["(*"+badgerPkg+".Iterator).Valid"] = func(i *interpreter, fr *frame, fn *ssa.Function, args []value) value {
		it := handleOf(args[0]).(*modelIter)
		return it.pos < len(it.keys)
	}
	h["(*"+badgerPkg+".Iterator).Next"] = func(i *interpreter, fr *frame, fn *ssa.Function, args []value) value {
		handleOf(args[0]).(*modelIter).pos++
		return nil
	}
	h["(*"+badgerPkg+".Iterator).Item"] = func(i *interpreter, fr *frame, fn *ssa.Function, args []value) value {
		it := handleOf(args[0]).(*modelIter)
		k := it.keys[it.pos]
		return newHandle(&modelItem{key: k, val: it.txn.db.committed.m[k]})
	}
	h["(*"+badgerPkg+".Iterator).Close"] = func(i *interpreter, fr *frame, fn *ssa.Function, args []value) value { return nil }
	h["(*"+badgerPkg+".DB).NewWriteBatch"] = func(i *interpreter, fr *frame, fn *ssa.Function, args []value) value {
		db := handleOf(args[0]).(*modelDB)
		return newHandle(&modelBatch{db: db})
	}
	h["(*"+badgerPkg+".WriteBatch).Set"] = func(i *interpreter, fr *frame, fn *ssa.Function, args []value) value {
		wb := handleOf(args[0]).(*modelBatch)
		if wb.db.closed {
			return i.badgerErr("ErrDBClosed")
		}
		if i.fault("badger.WriteBatch.Set") {
			return i.mkError("injected: WriteBatch.Set failed")
		}
		wb.keys = append(wb.keys, keyString(args[1], "badger key"))
		wb.vals = append(wb.vals, copyVals(args[2].([]value)))
		return iface{}
	}
	h["(*"+badgerPkg+".WriteBatch).Flush"] = func(i *interpreter, fr *frame, fn *ssa.Function, args []value) value {
		wb := handleOf(args[0]).(*modelBatch)
		i.yield("badger.Flush")
		i.crashPoint("badger.Flush/begin")
		if wb.db.closed {
			return i.badgerErr("ErrDBClosed")
		}
		pend := map[string][]value{}
		for k := range wb.keys {
			pend[wb.keys[k]] = wb.vals[k]
		}
		if i.fault("badger.Flush") {
			// an arbitrary subset may have been written
			for k := range wb.keys {
				if i.fault("badger.Flush/partial") {
					i.commit(wb.db, []string{wb.keys[k]}, pend)
				}
			}
			return i.mkError("injected: WriteBatch.Flush failed")
		}
		if i.crashMidFlush("badger.Flush/mid") {
			for k := range wb.keys {
				if i.crashSubset(k) {
					i.commit(wb.db, []string{wb.keys[k]}, pend)
				}
			}
			panic(processCrash{"badger.Flush/mid"})
		}
		i.commit(wb.db, wb.keys, pend)
		wb.flushed = true
		i.crashPoint("badger.Flush/after")
		return iface{}
	}
	h["(*"+badgerPkg+".WriteBatch).Cancel"] = func(i *interpreter, fr *frame, fn *ssa.Function, args []value) value { return nil }
}

func (i *interpreter) commit(db *modelDB, order []string, pend map[string][]value) {
	l := i.blog()
	l.commits++
	for _, k := range order {
		db.committed.m[k] = pend[k]
		l.commitKeys = append(l.commitKeys, k)
	}
}

// crash machinery: a crash point either lets execution continue or ends the
// simulated process (vsym.UntilCrash takes over; see intrinsics.go).  Occurrences
// of a site are numbered so that the native twin can crash at the same one.
func (i *interpreter) crashKey(site string) string {
	if i.crashCalls == nil {
		i.crashCalls = map[string]int{}
	}
	n := i.crashCalls[site]
	i.crashCalls[site] = n + 1
	if n > 0 {
		return fmt.Sprintf("%s#%d", site, n)
	}
	return site
}

func (i *interpreter) crashSelected(site string) bool {
	key := i.crashKey(site)
	if cc := i.w.concrete; cc != nil {
		for _, c := range cc.Crashes {
			if c == key {
				return true
			}
		}
		return false
	}
	if !i.crashOn || i.crashesUsed >= i.crashBudget || i.crashOwner == nil {
		return false
	}
	if i.decide("crash:"+site, 2, func(int) *Term { return nil }) == 1 {
		i.crashesUsed++
		i.trace = append(i.trace, "crash@"+key)
		return true
	}
	return false
}

func (i *interpreter) crashPoint(site string) {
	if i.crashSelected(site) {
		panic(processCrash{site})
	}
}

func (i *interpreter) crashMidFlush(site string) bool {
	return i.crashSelected(site)
}

// crashSubset: whether entry k of a batch in flight had reached the disk when the process died.
func (i *interpreter) crashSubset(k int) bool {
	if cc := i.w.concrete; cc != nil {
		for _, c := range cc.Crashes {
			if c == fmt.Sprintf("subset:%d", k) {
				return true
			}
		}
		return false
	}
	if i.decide(fmt.Sprintf("flush-subset:%d", k), 2, func(int) *Term { return nil }) == 1 {
		i.trace = append(i.trace, fmt.Sprintf("crash@subset:%d", k))
		return true
	}
	return false
}

// processCrash unwinds the simulated process up to vsym.UntilCrash.
type processCrash struct{ site string }
