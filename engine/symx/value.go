// Copyright 2013 The Go Authors. All rights reserved.
// Use of this source code is governed by a BSD-style
// license that can be found in the LICENSE file.

package symx

// Values
//
// All interpreter values are "boxed" in the empty interface, value.
// The range of possible dynamic types within value are:
//
// - bool
// - numbers (all built-in int/float/complex types are distinguished)
// - string
// - map[value]value --- maps for which  usesBuiltinMap(keyType)
//   *hashmap        --- maps for which !usesBuiltinMap(keyType)
// - chan value
// - []value --- slices
// - iface --- interfaces.
// - structure --- structs.  Fields are ordered and accessed by numeric indices.
// - array --- arrays.
// - *value --- pointers.  Careful: *value is a distinct type from *array etc.
// - *ssa.Function \
//   *ssa.Builtin   } --- functions.  A nil 'func' is always of type *ssa.Function.
//   *closure      /
// - tuple --- as returned by Return, Next, "value,ok" modes, etc.
// - iter --- iterators from 'range' over map or string.
// - bad --- a poison pill for locals that have gone out of scope.
// - rtype -- the interpreter's concrete implementation of reflect.Type
// - **deferred -- the address of a frame's defer stack for a Defer._Stack.
//
// Note that nil is not on this list.
//
// Pay close attention to whether or not the dynamic type is a pointer.
// The compiler cannot help you since value is an empty interface.

import (
	"bytes"
	"fmt"
	"go/types"
	"io"
	"strings"
	"sync"
	"unsafe"

	"golang.org/x/tools/go/ssa"
	"golang.org/x/tools/go/types/typeutil"
)

type value interface{}

type tuple []value

type array []value

type iface struct {
	t types.Type // never an "untyped" type
	v value
}

type structure []value

// For map, array, *array, slice, string or channel.
type iter interface {
	// next returns a Tuple (key, value, ok).
	// key and value are unaliased, e.g. copies of the sequence element.
	next() tuple
}

type closure struct {
	Fn  *ssa.Function
	Env []value
}

type bad struct{}

type rtype struct {
	t types.Type
}

// Hash functions and equivalence relation:

// hashString computes the FNV hash of s.
func hashString(s string) int {
	var h uint32
	for i := 0; i < len(s); i++ {
		h ^= uint32(s[i])
		h *= 16777619
	}
	return int(h)
}

var hasher = typeutil.MakeHasher()

// hashType returns a hash for t such that
// types.Identical(x, y) => hashType(x) == hashType(y).
func hashType(t types.Type) int {
	hasherMu.Lock()
	defer hasherMu.Unlock()
	return int(hasher.Hash(t))
}

var hasherMu sync.Mutex

// usesBuiltinMap returns true if the built-in hash function and
// equivalence relation for type t are consistent with those of the
// interpreter's representation of type t.  Such types are: all basic
// types (bool, numbers, string), pointers and channels.
//
// usesBuiltinMap returns false for types that require a custom map
// implementation: interfaces, arrays and structs.
//
// Panic ensues if t is an invalid map key type: function, map or slice.
func usesBuiltinMap(t types.Type) bool {
	switch t := t.(type) {
	case *types.Basic, *types.Chan, *types.Pointer:
		return true
	case *types.Named, *types.Alias:
		return usesBuiltinMap(t.Underlying())
	case *types.Interface, *types.Array, *types.Struct:
		return false
	}
	panic(fmt.Sprintf("invalid map key type: %T", t))
}

func (x array) eq(t types.Type, _y interface{}) bool {
	y := _y.(array)
	tElt := t.Underlying().(*types.Array).Elem()
	for i, xi := range x {
		if !equals(tElt, xi, y[i]) {
			return false
		}
	}
	return true
}

func (x array) hash(t types.Type) int {
	h := 0
	tElt := t.Underlying().(*types.Array).Elem()
	for _, xi := range x {
		h += hash(t, tElt, xi)
	}
	return h
}

func (x structure) eq(t types.Type, _y interface{}) bool {
	y := _y.(structure)
	tStruct := t.Underlying().(*types.Struct)
	for i, n := 0, tStruct.NumFields(); i < n; i++ {
		if f := tStruct.Field(i); !f.Anonymous() {
			if !equals(f.Type(), x[i], y[i]) {
				return false
			}
		}
	}
	return true
}

func (x structure) hash(t types.Type) int {
	tStruct := t.Underlying().(*types.Struct)
	h := 0
	for i, n := 0, tStruct.NumFields(); i < n; i++ {
		if f := tStruct.Field(i); !f.Anonymous() {
			h += hash(t, f.Type(), x[i])
		}
	}
	return h
}

// nil-tolerant variant of types.Identical.
func sameType(x, y types.Type) bool {
	if x == nil {
		return y == nil
	}
	return y != nil && types.Identical(x, y)
}

func (x iface) eq(t types.Type, _y interface{}) bool {
	y := _y.(iface)
	return sameType(x.t, y.t) && (x.t == nil || equals(x.t, x.v, y.v))
}

func (x iface) hash(outer types.Type) int {
	return hashType(x.t)*8581 + hash(outer, x.t, x.v)
}

func (x rtype) hash(_ types.Type) int {
	return hashType(x.t)
}

func (x rtype) eq(_ types.Type, y interface{}) bool {
	return types.Identical(x.t, y.(rtype).t)
}

// equals returns true iff x and y are equal according to Go's
// linguistic equivalence relation for type t.
// In a well-typed program, the dynamic types of x and y are
// guaranteed equal.
func equals(t types.Type, x, y value) bool {
	switch x := x.(type) {
	case bool:
		return x == y.(bool)
	case int:
		return x == y.(int)
	case int8:
		return x == y.(int8)
	case int16:
		return x == y.(int16)
	case int32:
		return x == y.(int32)
	case int64:
		return x == y.(int64)
	case uint:
		return x == y.(uint)
	case uint8:
		return x == y.(uint8)
	case uint16:
		return x == y.(uint16)
	case uint32:
		return x == y.(uint32)
	case uint64:
		return x == y.(uint64)
	case uintptr:
		return x == y.(uintptr)
	case float32:
		return x == y.(float32)
	case float64:
		return x == y.(float64)
	case complex64:
		return x == y.(complex64)
	case complex128:
		return x == y.(complex128)
	case string:
		return x == y.(string)
	case *value:
		return x == y.(*value)
	case *channel:
		return x == y.(*channel)
	case *closure:
		if yc, ok := y.(*closure); ok {
			return x == yc
		}
		return false
	case *ssa.Function:
		if yf, ok := y.(*ssa.Function); ok {
			return x == yf
		}
		return false
	case symv, symb:
		panic(unsupported{"symbolic value in concrete equality (map key?)"})
	case structure:
		return x.eq(t, y)
	case array:
		return x.eq(t, y)
	case iface:
		return x.eq(t, y)
	case rtype:
		return x.eq(t, y)
	}

	// Since map, func and slice don't support comparison, this
	// case is only reachable if one of x or y is literally nil
	// (handled in eqnil) or via interface{} values.
	panic(fmt.Sprintf("comparing uncomparable type %s", t))
}

// Returns an integer hash of x such that equals(x, y) => hash(x) == hash(y).
// The outer type is used only for the "unhashable" panic message.
func hash(outer, t types.Type, x value) int {
	switch x := x.(type) {
	case bool:
		if x {
			return 1
		}
		return 0
	case int:
		return x
	case int8:
		return int(x)
	case int16:
		return int(x)
	case int32:
		return int(x)
	case int64:
		return int(x)
	case uint:
		return int(x)
	case uint8:
		return int(x)
	case uint16:
		return int(x)
	case uint32:
		return int(x)
	case uint64:
		return int(x)
	case uintptr:
		return int(x)
	case float32:
		return int(x)
	case float64:
		return int(x)
	case complex64:
		return int(real(x))
	case complex128:
		return int(real(x))
	case string:
		return hashString(x)
	case *value:
		return int(uintptr(unsafe.Pointer(x)))
	case *channel:
		return x.id
	case symv, symb:
		panic(unsupported{"symbolic value used as map key"})
	case structure:
		return x.hash(t)
	case array:
		return x.hash(t)
	case iface:
		return x.hash(t)
	case rtype:
		return x.hash(t)
	}
	panic(unsupported{fmt.Sprintf("unhashable map key of type %v (symbolic part?)", outer)})
}

// reflect.Value struct values don't have a fixed shape, since the
// payload can be a scalar or an aggregate depending on the instance.
// So store (and load) can't simply use recursion over the shape of the
// rhs value, or the lhs, to copy the value; we need the static type
// information.  (We can't make reflect.Value a new basic data type
// because its "structness" is exposed to Go programs.)

// load returns the value of type T in *addr.
func load(T types.Type, addr *value) value {
	switch T := T.Underlying().(type) {
	case *types.Struct:
		v := (*addr).(structure)
		a := make(structure, len(v))
		for i := range a {
			a[i] = load(T.Field(i).Type(), &v[i])
		}
		return a
	case *types.Array:
		v := (*addr).(array)
		a := make(array, len(v))
		for i := range a {
			a[i] = load(T.Elem(), &v[i])
		}
		return a
	default:
		return *addr
	}
}

// store stores value v of type T into *addr.
func store(T types.Type, addr *value, v value) {
	switch T := T.Underlying().(type) {
	case *types.Struct:
		lhs := (*addr).(structure)
		rhs := v.(structure)
		for i := range lhs {
			store(T.Field(i).Type(), &lhs[i], rhs[i])
		}
	case *types.Array:
		lhs := (*addr).(array)
		rhs := v.(array)
		for i := range lhs {
			store(T.Elem(), &lhs[i], rhs[i])
		}
	default:
		*addr = v
	}
}

// Prints in the style of built-in println.
// (More or less; in gc println is actually a compiler intrinsic and
// can distinguish println(1) from println(interface{}(1)).)
func writeValue(buf *bytes.Buffer, v value) {
	switch v := v.(type) {
	case nil, bool, int, int8, int16, int32, int64, uint, uint8, uint16, uint32, uint64, uintptr, float32, float64, complex64, complex128, string:
		fmt.Fprintf(buf, "%v", v)

	case *hashmap:
		buf.WriteString("map[")
		sep := ""
		if v != nil {
			for _, e := range v.list {
				buf.WriteString(sep)
				sep = " "
				writeValue(buf, e.key)
				buf.WriteString(":")
				writeValue(buf, e.value)
			}
		}
		buf.WriteString("]")

	case *channel:
		fmt.Fprintf(buf, "chan#%p", v)

	case symv:
		fmt.Fprintf(buf, "sym(%s)", v.t)
	case symb:
		fmt.Fprintf(buf, "sym(%s)", v.t)
	case opaqueStr:
		fmt.Fprintf(buf, "<opaque:%s>", v.desc)
	case decStr:
		fmt.Fprintf(buf, "dec(%s)", v.t)
	case symStr:
		fmt.Fprintf(buf, "symstr[%d]", len(v.bs))
	case enumStr:
		fmt.Fprintf(buf, "oneof%v", v.table)

	case *value:
		if v == nil {
			buf.WriteString("<nil>")
		} else {
			fmt.Fprintf(buf, "%p", v)
		}

	case iface:
		fmt.Fprintf(buf, "(%s, ", v.t)
		writeValue(buf, v.v)
		buf.WriteString(")")

	case structure:
		buf.WriteString("{")
		for i, e := range v {
			if i > 0 {
				buf.WriteString(" ")
			}
			writeValue(buf, e)
		}
		buf.WriteString("}")

	case array:
		buf.WriteString("[")
		for i, e := range v {
			if i > 0 {
				buf.WriteString(" ")
			}
			writeValue(buf, e)
		}
		buf.WriteString("]")

	case []value:
		buf.WriteString("[")
		for i, e := range v {
			if i > 0 {
				buf.WriteString(" ")
			}
			writeValue(buf, e)
		}
		buf.WriteString("]")

	case *ssa.Function, *ssa.Builtin, *closure:
		fmt.Fprintf(buf, "%p", v) // (an address)

	case rtype:
		buf.WriteString(v.t.String())

	case tuple:
		// Unreachable in well-formed Go programs
		buf.WriteString("(")
		for i, e := range v {
			if i > 0 {
				buf.WriteString(", ")
			}
			writeValue(buf, e)
		}
		buf.WriteString(")")

	default:
		fmt.Fprintf(buf, "<%T>", v)
	}
}

// Implements printing of Go values in the style of built-in println.
func toString(v value) string {
	var b bytes.Buffer
	writeValue(&b, v)
	return b.String()
}

// ------------------------------------------------------------------------
// Iterators

type stringIter struct {
	*strings.Reader
	i int
}

func (it *stringIter) next() tuple {
	okv := make(tuple, 3)
	ch, n, err := it.ReadRune()
	ok := err != io.EOF
	okv[0] = ok
	if ok {
		okv[1] = it.i
		okv[2] = ch
	}
	it.i += n
	return okv
}

