package symx

// Model of fastssz hashing: a recording hasher.  The generated
// HashTreeRootWith methods (dirk's SigningRoot, go-eth2-client's
// AttestationData / BeaconBlockHeader / Checkpoint) are executed for real
// against it.  Merkleisation of n chunks is the real SHA-256 tree when every
// byte is concrete, and an uninterpreted function H_n otherwise.

import (
	"crypto/sha256"
	"fmt"
	"go/types"

	"golang.org/x/tools/go/ssa"
)

const sszPkg = "github.com/ferranbt/fastssz"

// nativeTypes: dynamic types of interface values implemented natively by the engine.
var hasherType types.Type = types.NewNamed(types.NewTypeName(0, nil, "verif.recordingHasher", nil), types.NewStruct(nil, nil), nil)

type nativeMethodFn func(i *interpreter, recv value, args []value) value

var nativeMethods = map[types.Type]map[string]nativeMethodFn{}

type hasherState struct {
	chunks [][]value // each 32 bytes
}

func chunkOf(bs []value) []value {
	c := make([]value, 32)
	for k := range c {
		if k < len(bs) {
			c[k] = bs[k]
		} else {
			c[k] = byte(0)
		}
	}
	return c
}

func allConcrete(chunks [][]value) bool {
	for _, c := range chunks {
		for _, b := range c {
			if _, ok := b.(byte); !ok {
				return false
			}
		}
	}
	return true
}

var zeroHashes [][32]byte

func init() {
	zeroHashes = make([][32]byte, 40)
	for k := 1; k < len(zeroHashes); k++ {
		var buf [64]byte
		copy(buf[:32], zeroHashes[k-1][:])
		copy(buf[32:], zeroHashes[k-1][:])
		zeroHashes[k] = sha256.Sum256(buf[:])
	}
	nativeMethods[hasherType] = hasherMethods()
}

func merkleizeConcrete(chunks [][32]byte) [32]byte {
	if len(chunks) == 1 {
		return chunks[0]
	}
	depth := 0
	for (1 << depth) < len(chunks) {
		depth++
	}
	layer := chunks
	for d := 0; d < depth; d++ {
		if len(layer)%2 == 1 {
			layer = append(layer, zeroHashes[d])
		}
		next := make([][32]byte, len(layer)/2)
		for k := range next {
			var buf [64]byte
			copy(buf[:32], layer[2*k][:])
			copy(buf[32:], layer[2*k+1][:])
			next[k] = sha256.Sum256(buf[:])
		}
		layer = next
	}
	return layer[0]
}

func chunkTerm(c []value) *Term {
	var t *Term
	for k := 0; k < 32; k++ {
		_, bt, _ := intTerm(c[k])
		if t == nil {
			t = bt
		} else {
			t = newTerm("concat", t.sort+8, t, bt)
		}
	}
	return t
}

// sha64 is SHA-256 of a 64-byte block: the real function on concrete bytes, the uninterpreted
// function SHA64 : BitVec 512 -> BitVec 256 otherwise.  Merkleisation and crypto/sha256.Sum256
// share it, so code that hashes root||domain directly is recognised as equal to the SSZ container.
func (i *interpreter) sha64(left, right []value) []value {
	both := [][]value{left, right}
	if allConcrete(both) {
		var buf [64]byte
		for k := 0; k < 32; k++ {
			buf[k] = left[k].(byte)
			buf[32+k] = right[k].(byte)
		}
		r := sha256.Sum256(buf[:])
		return fromBytes(r[:])
	}
	i.w.solver.AddPreamble("(declare-fun SHA64 ((_ BitVec 512)) (_ BitVec 256))")
	arg := newTerm("concat", 512, chunkTerm(left), chunkTerm(right))
	h := App("SHA64", 256, arg)
	out := make([]value, 32)
	for k := 0; k < 32; k++ {
		hi := 255 - 8*k
		out[k] = symv{types.Uint8, newTerm(fmt.Sprintf("(_ extract %d %d)", hi, hi-7), 8, h)}
	}
	return out
}

func (i *interpreter) merkleize(chunks [][]value) []value {
	if len(chunks) == 0 {
		return chunkOf(nil)
	}
	if len(chunks) == 1 {
		return chunks[0]
	}
	depth := 0
	for (1 << depth) < len(chunks) {
		depth++
	}
	layer := chunks
	for d := 0; d < depth; d++ {
		if len(layer)%2 == 1 {
			layer = append(layer[:len(layer):len(layer)], fromBytes(zeroHashes[d][:]))
		}
		next := make([][]value, len(layer)/2)
		for k := range next {
			next[k] = i.sha64(layer[2*k], layer[2*k+1])
		}
		layer = next
	}
	i.hashes = append(i.hashes, hashRecord{n: len(chunks), in: chunks, out: layer[0]})
	return layer[0]
}

type hashRecord struct {
	n   int
	in  [][]value
	out []value
}

func hasherMethods() map[string]nativeMethodFn {
	st := func(recv value) *hasherState { return recv.(nativeHandle).v.(*hasherState) }
	le := func(i *interpreter, v value, nbytes int) []value {
		k, t, ok := intTerm(v)
		if !ok {
			panic(fmt.Sprintf("hasher: not an integer: %T", v))
		}
		_ = k
		out := make([]value, nbytes)
		for j := 0; j < nbytes; j++ {
			out[j] = mkInt(types.Uint8, Extract(8*j+7, 8*j, t))
		}
		return out
	}
	m := map[string]nativeMethodFn{}
	m["Index"] = func(i *interpreter, recv value, args []value) value { return len(st(recv).chunks) }
	m["PutUint64"] = func(i *interpreter, recv value, args []value) value {
		h := st(recv)
		h.chunks = append(h.chunks, chunkOf(le(i, args[0], 8)))
		return nil
	}
	m["PutUint32"] = func(i *interpreter, recv value, args []value) value {
		h := st(recv)
		h.chunks = append(h.chunks, chunkOf(le(i, args[0], 4)))
		return nil
	}
	m["PutUint16"] = func(i *interpreter, recv value, args []value) value {
		h := st(recv)
		h.chunks = append(h.chunks, chunkOf(le(i, args[0], 2)))
		return nil
	}
	m["PutUint8"] = func(i *interpreter, recv value, args []value) value {
		h := st(recv)
		h.chunks = append(h.chunks, chunkOf(le(i, args[0], 1)))
		return nil
	}
	m["PutBool"] = func(i *interpreter, recv value, args []value) value {
		h := st(recv)
		b := byte(0)
		if i.truth(args[0]) {
			b = 1
		}
		h.chunks = append(h.chunks, chunkOf([]value{b}))
		return nil
	}
	m["PutBytes"] = func(i *interpreter, recv value, args []value) value {
		h := st(recv)
		b := args[0].([]value)
		if len(b) <= 32 {
			h.chunks = append(h.chunks, chunkOf(b))
			return nil
		}
		var cs [][]value
		for off := 0; off < len(b); off += 32 {
			end := off + 32
			if end > len(b) {
				end = len(b)
			}
			cs = append(cs, chunkOf(b[off:end]))
		}
		h.chunks = append(h.chunks, i.merkleize(cs))
		return nil
	}
	m["Merkleize"] = func(i *interpreter, recv value, args []value) value {
		h := st(recv)
		idx := int(asInt64(args[0]))
		if idx < 0 || idx > len(h.chunks) {
			panic(runtimeErrorString("runtime error: slice bounds out of range in Merkleize"))
		}
		in := append([][]value(nil), h.chunks[idx:]...)
		h.chunks = append(h.chunks[:idx:idx], i.merkleize(in))
		return nil
	}
	m["Hash"] = func(i *interpreter, recv value, args []value) value {
		h := st(recv)
		if len(h.chunks) == 0 {
			return []value(nil)
		}
		return append([]value(nil), h.chunks[len(h.chunks)-1]...)
	}
	return m
}

func addSSZModel(P *Program) {
	h := P.hooks
	h[sszPkg+".HashWithDefaultHasher"] = func(i *interpreter, fr *frame, fn *ssa.Function, args []value) value {
		v := args[0].(iface)
		if v.t == nil {
			panic(runtimeErrorString("runtime error: invalid memory address or nil pointer dereference"))
		}
		arrT := fn.Signature.Results().At(0).Type()
		hs := &hasherState{}
		hh := iface{t: hasherType, v: nativeHandle{hs}}
		f, ok := i.callMethodLookup(v, "HashTreeRootWith")
		if !ok {
			panic(unsupported{"HashWithDefaultHasher: no HashTreeRootWith on " + v.t.String()})
		}
		r := call(i, fr, 0, f, []value{v.v, hh})
		if e, ok := r.(iface); ok && e.t != nil {
			return tuple{zero(arrT), r}
		}
		if len(hs.chunks) != 1 {
			return tuple{zero(arrT), i.mkError("ssz: incorrect size")}
		}
		return tuple{array(append([]value(nil), hs.chunks[0]...)), iface{}}
	}
	h["crypto/sha256.Sum256"] = func(i *interpreter, fr *frame, fn *ssa.Function, args []value) value {
		return array(i.sha256Of(args[0].([]value)))
	}
	// sha256.New(): a native hash.Hash that accumulates what is written
	h["crypto/sha256.New"] = func(i *interpreter, fr *frame, fn *ssa.Function, args []value) value {
		return iface{t: sha256HashType, v: nativeHandle{&sha256State{}}}
	}
	h[sszPkg+".ErrBytesLengthFn"] = func(i *interpreter, fr *frame, fn *ssa.Function, args []value) value {
		return i.mkError(fmt.Sprintf("%v (%v): expected %v and %v found", toString(args[0]), "bytes", toString(args[2]), toString(args[1])))
	}
}

// sha256Of: SHA-256 of a byte string: the real function on concrete bytes; on symbolic bytes the
// 64-byte block function SHA64 (shared with merkleisation) or one uninterpreted function per length.
func (i *interpreter) sha256Of(data []value) []value {
	if !containsSym(data) {
		r := sha256.Sum256(goBytes(data, "sha256"))
		return fromBytes(r[:])
	}
	if len(data) == 64 {
		return i.sha64(data[:32], data[32:])
	}
	n := len(data)
	name := fmt.Sprintf("SHA256len%d", n)
	i.w.solver.AddPreamble(fmt.Sprintf("(declare-fun %s ((_ BitVec %d)) (_ BitVec 256))", name, 8*n))
	var t *Term
	for k := 0; k < n; k++ {
		_, bt, _ := intTerm(data[k])
		if t == nil {
			t = bt
		} else {
			t = newTerm("concat", t.sort+8, t, bt)
		}
	}
	h := App(name, 256, t)
	out := make([]value, 32)
	for k := 0; k < 32; k++ {
		hi := 255 - 8*k
		out[k] = symv{types.Uint8, newTerm(fmt.Sprintf("(_ extract %d %d)", hi, hi-7), 8, h)}
	}
	return out
}

var sha256HashType types.Type = types.NewNamed(types.NewTypeName(0, nil, "verif.sha256Hash", nil), types.NewStruct(nil, nil), nil)

type sha256State struct{ data []value }

func init() {
	st := func(recv value) *sha256State { return recv.(nativeHandle).v.(*sha256State) }
	nativeMethods[sha256HashType] = map[string]nativeMethodFn{
		"Write": func(i *interpreter, recv value, args []value) value {
			p := args[0].([]value)
			s := st(recv)
			s.data = append(s.data, p...)
			return tuple{len(p), iface{}}
		},
		"Sum": func(i *interpreter, recv value, args []value) value {
			prefix, _ := args[0].([]value)
			return append(append([]value(nil), prefix...), i.sha256Of(st(recv).data)...)
		},
		"Reset":     func(i *interpreter, recv value, args []value) value { st(recv).data = nil; return nil },
		"Size":      func(i *interpreter, recv value, args []value) value { return 32 },
		"BlockSize": func(i *interpreter, recv value, args []value) value { return 64 },
	}
}
