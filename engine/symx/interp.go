// Copyright 2013 The Go Authors. All rights reserved.
// Use of this source code is governed by a BSD-style
// license that can be found in the LICENSE file.

// Package ssa/interp defines an interpreter for the SSA
// representation of Go programs.
//
// This interpreter is provided as an adjunct for testing the SSA
// construction algorithm.  Its purpose is to provide a minimal
// metacircular implementation of the dynamic semantics of each SSA
// instruction.  It is not, and will never be, a production-quality Go
// interpreter.
//
// The following is a partial list of Go features that are currently
// unsupported or incomplete in the interpreter.
//
// * Unsafe operations, including all uses of unsafe.Pointer, are
// impossible to support given the "boxed" value representation we
// have chosen.
//
// * The reflect package is only partially implemented.
//
// * The "testing" package is no longer supported because it
// depends on low-level details that change too often.
//
// * "sync/atomic" operations are not atomic due to the "boxed" value
// representation: it is not possible to read, modify and write an
// interface value atomically. As a consequence, Mutexes are currently
// broken.
//
// * recover is only partially implemented.  Also, the interpreter
// makes no attempt to distinguish target panics from interpreter
// crashes.
//
// * the sizes of the int, uint and uintptr types in the target
// program are assumed to be the same as those of the interpreter
// itself.
//
// * all values occupy space, even those of types defined by the spec
// to have zero size, e.g. struct{}.  This can cause asymptotic
// performance degradation.
//
// * os.Exit is implemented using panic, causing deferred functions to
// run.
package symx

import (
	"fmt"
	"go/token"
	"go/types"
	"log"
	"os"
	"runtime"
	"slices"
	_ "unsafe"

	"golang.org/x/tools/go/ssa"
)

type continuation int

const (
	kNext continuation = iota
	kReturn
	kJump
)

// Mode is a bitmask of options affecting the interpreter.
type Mode uint

const (
	DisableRecover Mode = 1 << iota // Disable recover() in target programs; show interpreter crash instead.
	EnableTracing                   // Print a trace of all instructions as they are interpreted.
)

type methodSet map[string]*ssa.Function

// Per-run interpreter state (one logical process).  See run.go for the
// exploration-related fields.
type interpreter struct {
	P                  *Program
	prog               *ssa.Program           // the SSA program
	globals            map[*ssa.Global]*value // addresses of global variables (allocated lazily)
	inited             map[*ssa.Package]bool  // packages whose init has run (lazy, non-transitive)
	mode               Mode                   // interpreter options
	runtimeErrorString types.Type             // the runtime.errorString type
	sizes              types.Sizes            // the effective type-sizing function
	runState
}

type deferred struct {
	fn    value
	args  []value
	instr *ssa.Defer
	tail  *deferred
}

type frame struct {
	i                *interpreter
	caller           *frame
	fn               *ssa.Function
	block, prevBlock *ssa.BasicBlock
	env              map[ssa.Value]value // dynamic values of SSA variables
	locals           []value
	defers           *deferred
	result           value
	panicking        bool
	panic            interface{}
	phitemps         []value // temporaries for parallel phi assignment
}

func (fr *frame) get(key ssa.Value) value {
	switch key := key.(type) {
	case nil:
		// Hack; simplifies handling of optional attributes
		// such as ssa.Slice.{Low,High}.
		return nil
	case *ssa.Function, *ssa.Builtin:
		return key
	case *ssa.Const:
		return constValue(key)
	case *ssa.Global:
		return fr.i.global(key)
	}
	if r, ok := fr.env[key]; ok {
		return r
	}
	panic(fmt.Sprintf("get: no value for %T: %v", key, key.Name()))
}

// runDefer runs a deferred call d.
// It always returns normally, but may set or clear fr.panic.
func (fr *frame) runDefer(d *deferred) {
	if fr.i.mode&EnableTracing != 0 {
		fmt.Fprintf(os.Stderr, "%s: invoking deferred function call\n",
			fr.i.prog.Fset.Position(d.instr.Pos()))
	}
	var ok bool
	defer func() {
		if !ok {
			// Deferred call created a new state of panic.
			p := recover()
			if isControl(p) {
				panic(p)
			}
			fr.panicking = true
			fr.panic = p
		}
	}()
	call(fr.i, fr, d.instr.Pos(), d.fn, d.args)
	ok = true
}

// runDefers executes fr's deferred function calls in LIFO order.
//
// On entry, fr.panicking indicates a state of panic; if
// true, fr.panic contains the panic value.
//
// On completion, if a deferred call started a panic, or if no
// deferred call recovered from a previous state of panic, then
// runDefers itself panics after the last deferred call has run.
//
// If there was no initial state of panic, or it was recovered from,
// runDefers returns normally.
func (fr *frame) runDefers() {
	for d := fr.defers; d != nil; d = d.tail {
		fr.runDefer(d)
	}
	fr.defers = nil
	if fr.panicking {
		panic(fr.panic) // new panic, or still panicking
	}
}

// lookupMethod returns the method set for type typ, which may be one
// of the interpreter's fake types.
func lookupMethod(i *interpreter, typ types.Type, meth *types.Func) *ssa.Function {
	return i.prog.LookupMethod(typ, meth.Pkg(), meth.Name())
}

// visitInstr interprets a single ssa.Instruction within the activation
// record frame.  It returns a continuation value indicating where to
// read the next instruction from.
func visitInstr(fr *frame, instr ssa.Instruction) continuation {
	switch instr := instr.(type) {
	case *ssa.DebugRef:
		// no-op

	case *ssa.UnOp:
		fr.env[instr] = fr.i.unop(fr, instr, fr.get(instr.X))

	case *ssa.BinOp:
		fr.env[instr] = fr.i.binop(instr.Op, instr.X.Type(), fr.get(instr.X), fr.get(instr.Y))

	case *ssa.Call:
		fn, args := prepareCall(fr, &instr.Call)
		fr.env[instr] = call(fr.i, fr, instr.Pos(), fn, args)

	case *ssa.ChangeInterface:
		fr.env[instr] = fr.get(instr.X)

	case *ssa.ChangeType:
		fr.env[instr] = fr.get(instr.X) // (can't fail)

	case *ssa.Convert:
		fr.env[instr] = fr.i.conv(instr.Type(), instr.X.Type(), fr.get(instr.X))

	case *ssa.SliceToArrayPointer:
		fr.env[instr] = sliceToArrayPointer(instr.Type(), instr.X.Type(), fr.get(instr.X))

	case *ssa.MakeInterface:
		fr.env[instr] = iface{t: instr.X.Type(), v: fr.get(instr.X)}

	case *ssa.Extract:
		fr.env[instr] = fr.get(instr.Tuple).(tuple)[instr.Index]

	case *ssa.Slice:
		fr.env[instr] = fr.i.slice(fr.get(instr.X), fr.get(instr.Low), fr.get(instr.High), fr.get(instr.Max))

	case *ssa.Return:
		switch len(instr.Results) {
		case 0:
		case 1:
			fr.result = fr.get(instr.Results[0])
		default:
			var res []value
			for _, r := range instr.Results {
				res = append(res, fr.get(r))
			}
			fr.result = tuple(res)
		}
		fr.block = nil
		return kReturn

	case *ssa.RunDefers:
		fr.runDefers()

	case *ssa.Panic:
		panic(targetPanic{fr.get(instr.X)})

	case *ssa.Send:
		fr.i.chanSend(fr.get(instr.Chan).(*channel), fr.get(instr.X))

	case *ssa.Store:
		store(mustDeref(instr.Addr.Type()), fr.get(instr.Addr).(*value), fr.get(instr.Val))

	case *ssa.If:
		succ := 1
		if fr.i.truth(fr.get(instr.Cond)) {
			succ = 0
		}
		fr.prevBlock, fr.block = fr.block, fr.block.Succs[succ]
		return kJump

	case *ssa.Jump:
		fr.prevBlock, fr.block = fr.block, fr.block.Succs[0]
		return kJump

	case *ssa.Defer:
		fn, args := prepareCall(fr, &instr.Call)
		defers := &fr.defers
		if into := fr.get(instr.DeferStack); into != nil {
			defers = into.(**deferred)
		}
		*defers = &deferred{
			fn:    fn,
			args:  args,
			instr: instr,
			tail:  *defers,
		}

	case *ssa.Go:
		fn, args := prepareCall(fr, &instr.Call)
		fr.i.spawn(instr, fn, args)

	case *ssa.MakeChan:
		fr.env[instr] = fr.i.makeChan(int(fr.i.concreteInt64(fr.get(instr.Size), "chan size")))

	case *ssa.Alloc:
		var addr *value
		if instr.Heap {
			// new
			addr = fr.i.newCell(mustDeref(instr.Type()))
			fr.env[instr] = addr
		} else {
			// local
			addr = fr.env[instr].(*value)
		}
		*addr = zero(mustDeref(instr.Type()))

	case *ssa.MakeSlice:
		c := fr.i.concreteInt64(fr.get(instr.Cap), "makeslice cap")
		l := fr.i.concreteInt64(fr.get(instr.Len), "makeslice len")
		if l < 0 || l > c || c > 1<<24 {
			panic(runtimeErrorString(fmt.Sprintf("runtime error: makeslice: len/cap out of range (%d,%d)", l, c)))
		}
		slice := make([]value, c)
		tElt := instr.Type().Underlying().(*types.Slice).Elem()
		for i := range slice {
			slice[i] = zero(tElt)
		}
		fr.env[instr] = slice[:l]

	case *ssa.MakeMap:
		var reserve int64
		if instr.Reserve != nil {
			reserve = fr.i.concreteInt64(fr.get(instr.Reserve), "makemap reserve")
		}
		if !fitsInt(reserve, fr.i.sizes) {
			panic(fmt.Sprintf("ssa.MakeMap.Reserve value %d does not fit in int", reserve))
		}
		fr.env[instr] = makeMap(instr.Type().Underlying().(*types.Map).Key(), reserve)

	case *ssa.Range:
		fr.env[instr] = rangeIter(fr.get(instr.X), instr.X.Type())

	case *ssa.Next:
		fr.env[instr] = fr.get(instr.Iter).(iter).next()

	case *ssa.FieldAddr:
		fr.env[instr] = &(*fr.get(instr.X).(*value)).(structure)[instr.Field]

	case *ssa.Field:
		fr.env[instr] = fr.get(instr.X).(structure)[instr.Field]

	case *ssa.IndexAddr:
		x := fr.get(instr.X)
		idx := fr.get(instr.Index)
		switch x := x.(type) {
		case []value:
			fr.env[instr] = &x[fr.i.indexOf(idx, len(x))]
		case *value: // *array
			a := (*x).(array)
			fr.env[instr] = &a[fr.i.indexOf(idx, len(a))]
		default:
			panic(fmt.Sprintf("unexpected x type in IndexAddr: %T", x))
		}

	case *ssa.Index:
		x := fr.get(instr.X)
		idx := fr.get(instr.Index)

		switch x := x.(type) {
		case array:
			fr.env[instr] = x[fr.i.indexOf(idx, len(x))]
		case string:
			fr.env[instr] = x[fr.i.indexOf(idx, len(x))]
		case symStr:
			fr.env[instr] = x.bs[fr.i.indexOf(idx, len(x.bs))]
		default:
			panic(fmt.Sprintf("unexpected x type in Index: %T", x))
		}

	case *ssa.Lookup:
		fr.env[instr] = fr.i.lookup(instr, fr.get(instr.X), fr.get(instr.Index))

	case *ssa.MapUpdate:
		m := fr.get(instr.Map)
		key := fr.get(instr.Key)
		v := fr.get(instr.Value)
		fr.i.mapUpdate(m, key, v)

	case *ssa.TypeAssert:
		fr.env[instr] = typeAssert(fr.i, instr, fr.get(instr.X).(iface))

	case *ssa.MakeClosure:
		var bindings []value
		for _, binding := range instr.Bindings {
			bindings = append(bindings, fr.get(binding))
		}
		fr.env[instr] = &closure{instr.Fn.(*ssa.Function), bindings}

	case *ssa.Phi:
		log.Fatal("unreachable") // phis are processed at block entry

	case *ssa.Select:
		fr.env[instr] = fr.i.doSelect(fr, instr)

	default:
		panic(fmt.Sprintf("unexpected instruction: %T", instr))
	}

	// if val, ok := instr.(ssa.Value); ok {
	// 	fmt.Println(toString(fr.env[val])) // debugging
	// }

	return kNext
}

// prepareCall determines the function value and argument values for a
// function call in a Call, Go or Defer instruction, performing
// interface method lookup if needed.
func prepareCall(fr *frame, call *ssa.CallCommon) (fn value, args []value) {
	v := fr.get(call.Value)
	if call.Method == nil {
		// Function call.
		fn = v
	} else {
		// Interface method invocation.
		recv := v.(iface)
		if recv.t == nil {
			panic(runtimeErrorString("runtime error: invalid memory address or nil pointer dereference (method invoked on nil interface)"))
		}
		if recv.t == noopType {
			fn = noopMethod{call.Method}
			for _, arg := range call.Args {
				args = append(args, fr.get(arg))
			}
			return
		}
		if nm, ok := nativeMethods[recv.t]; ok {
			mf := nm[call.Method.Name()]
			if mf == nil {
				panic(unsupported{"native object " + recv.t.String() + " has no method " + call.Method.Name()})
			}
			rv := recv.v
			fn = &nativeFunc{name: call.Method.Name(), f: func(i *interpreter, args []value) value { return mf(i, rv, args) }}
			for _, arg := range call.Args {
				args = append(args, fr.get(arg))
			}
			return
		}
		if f := lookupMethod(fr.i, recv.t, call.Method); f == nil {
			// Unreachable in well-typed programs.
			panic(fmt.Sprintf("method set for dynamic type %v does not contain %s", recv.t, call.Method))
		} else {
			fn = f
		}
		args = append(args, recv.v)
	}
	for _, arg := range call.Args {
		args = append(args, fr.get(arg))
	}
	return
}

// call interprets a call to a function (function, builtin or closure)
// fn with arguments args, returning its result.
// callpos is the position of the callsite.
func call(i *interpreter, caller *frame, callpos token.Pos, fn value, args []value) value {
	switch fn := fn.(type) {
	case *ssa.Function:
		if fn == nil {
			panic(runtimeErrorString("runtime error: invalid memory address or nil pointer dereference (call of nil function)"))
		}
		return callSSA(i, caller, callpos, fn, args, nil)
	case *closure:
		return callSSA(i, caller, callpos, fn.Fn, args, fn.Env)
	case *ssa.Builtin:
		return i.callBuiltin(caller, callpos, fn, args)
	case noopMethod:
		return i.noopResult(fn.m.Type().(*types.Signature), args)
	case *nativeFunc:
		return fn.f(i, args)
	}
	panic(fmt.Sprintf("cannot call %T", fn))
}

func loc(fset *token.FileSet, pos token.Pos) string {
	if pos == token.NoPos {
		return ""
	}
	return " at " + fset.Position(pos).String()
}

// callSSA interprets a call to function fn with arguments args,
// and lexical environment env, returning its result.
// callpos is the position of the callsite.
func callSSA(i *interpreter, caller *frame, callpos token.Pos, fn *ssa.Function, args []value, env []value) value {
	if i.mode&EnableTracing != 0 {
		fset := fn.Prog.Fset
		// TODO(adonovan): fix: loc() lies for external functions.
		fmt.Fprintf(os.Stderr, "Entering %s%s.\n", fn, loc(fset, fn.Pos()))
		suffix := ""
		if caller != nil {
			suffix = ", resuming " + caller.fn.String() + loc(fset, callpos)
		}
		defer fmt.Fprintf(os.Stderr, "Leaving %s%s.\n", fn, suffix)
	}
	fr := &frame{
		i:      i,
		caller: caller, // for panic/recover
		fn:     fn,
	}
	if res, handled := i.intercept(fr, caller, fn, args); handled {
		return res
	}
	if fn.Blocks == nil {
		panic(unsupported{"no code for function: " + fn.String()})
	}

	// generic function body?
	if fn.TypeParams().Len() > 0 && len(fn.TypeArgs()) == 0 {
		panic("interp requires ssa.BuilderMode to include InstantiateGenerics to execute generics")
	}

	fr.env = make(map[ssa.Value]value)
	fr.block = fn.Blocks[0]
	fr.locals = make([]value, len(fn.Locals))
	for i, l := range fn.Locals {
		fr.locals[i] = zero(mustDeref(l.Type()))
		fr.env[l] = &fr.locals[i]
	}
	for i, p := range fn.Params {
		fr.env[p] = args[i]
	}
	for i, fv := range fn.FreeVars {
		fr.env[fv] = env[i]
	}
	i.depth++
	if i.depth > 2000 {
		panic(unsupported{"call depth exceeded in " + fn.String()})
	}
	for fr.block != nil {
		runFrame(fr)
	}
	i.depth--
	// Destroy the locals to avoid accidental use after return.
	for i := range fn.Locals {
		fr.locals[i] = bad{}
	}
	return fr.result
}

// runFrame executes SSA instructions starting at fr.block and
// continuing until a return, a panic, or a recovered panic.
//
// After a panic, runFrame panics.
//
// After a normal return, fr.result contains the result of the call
// and fr.block is nil.
//
// A recovered panic in a function without named return parameters
// (NRPs) becomes a normal return of the zero value of the function's
// result type.
//
// After a recovered panic in a function with NRPs, fr.result is
// undefined and fr.block contains the block at which to resume
// control.
func runFrame(fr *frame) {
	defer func() {
		if fr.block == nil {
			return // normal return
		}
		if fr.i.mode&DisableRecover != 0 {
			return // let interpreter crash
		}
		p := recover()
		if isControl(p) {
			panic(p)
		}
		fr.panicking = true
		fr.panic = p
		if fr.i.mode&EnableTracing != 0 {
			fmt.Fprintf(os.Stderr, "Panicking: %T %v.\n", fr.panic, fr.panic)
		}
		fr.runDefers()
		fr.block = fr.fn.Recover
	}()

	for {
		if fr.i.mode&EnableTracing != 0 {
			fmt.Fprintf(os.Stderr, ".%s:\n", fr.block)
		}

		nonPhis := executePhis(fr)
		for _, instr := range nonPhis {
			if fr.i.mode&EnableTracing != 0 {
				if v, ok := instr.(ssa.Value); ok {
					fmt.Fprintln(os.Stderr, "\t", v.Name(), "=", instr)
				} else {
					fmt.Fprintln(os.Stderr, "\t", instr)
				}
			}
			fr.i.step(fr, instr)
			if visitInstr(fr, instr) == kReturn {
				return
			}
			// Inv: kNext (continue) or kJump (last instr)
		}
	}
}

// executePhis executes the phi-nodes at the start of the current
// block and returns the non-phi instructions.
func executePhis(fr *frame) []ssa.Instruction {
	firstNonPhi := -1
	for i, instr := range fr.block.Instrs {
		if _, ok := instr.(*ssa.Phi); !ok {
			firstNonPhi = i
			break
		}
	}
	// Inv: 0 <= firstNonPhi; every block contains a non-phi.

	nonPhis := fr.block.Instrs[firstNonPhi:]
	if firstNonPhi > 0 {
		phis := fr.block.Instrs[:firstNonPhi]
		// Execute parallel assignment of phis.
		//
		// See "the swap problem" in Briggs et al's "Practical Improvements
		// to the Construction and Destruction of SSA Form" for discussion.
		predIndex := slices.Index(fr.block.Preds, fr.prevBlock)
		fr.phitemps = fr.phitemps[:0]
		for _, phi := range phis {
			phi := phi.(*ssa.Phi)
			if fr.i.mode&EnableTracing != 0 {
				fmt.Fprintln(os.Stderr, "\t", phi.Name(), "=", phi)
			}
			fr.phitemps = append(fr.phitemps, fr.get(phi.Edges[predIndex]))
		}
		for i, phi := range phis {
			fr.env[phi.(*ssa.Phi)] = fr.phitemps[i]
		}
	}
	return nonPhis
}

// doRecover implements the recover() built-in.
func doRecover(caller *frame) value {
	// recover() must be exactly one level beneath the deferred
	// function (two levels beneath the panicking function) to
	// have any effect.  Thus we ignore both "defer recover()" and
	// "defer f() -> g() -> recover()".
	if caller.i.mode&DisableRecover == 0 &&
		caller != nil && !caller.panicking &&
		caller.caller != nil && caller.caller.panicking {
		caller.caller.panicking = false
		p := caller.caller.panic
		caller.caller.panic = nil

		// TODO(adonovan): support runtime.Goexit.
		switch p := p.(type) {
		case targetPanic:
			// The target program explicitly called panic().
			return p.v
		case runtime.Error:
			// The interpreter encountered a runtime error.
			return iface{caller.i.runtimeErrorString, p.Error()}
		case runtimeErrorString:
			return iface{caller.i.runtimeErrorString, string(p)}
		case string:
			// The interpreter explicitly called panic().
			return iface{caller.i.runtimeErrorString, p}
		default:
			panic(fmt.Sprintf("unexpected panic type %T in target call to recover()", p))
		}
	}
	return iface{}
}

