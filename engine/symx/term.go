package symx

// SMT terms: a DAG of nodes printed as SMT-LIB2.  Bit-vectors model Go's
// fixed-width integers (wrap-around), Bool models bool, Int/Real are used by
// a few arithmetic kernels and models.

import (
	"fmt"
	"strings"
	"sync/atomic"
)

// Sort: >0 bit-vector width, 0 Bool, -1 Int, -2 Real.
type Sort int

const (
	SBool Sort = 0
	SInt  Sort = -1
	SReal Sort = -2
)

func (s Sort) String() string {
	switch {
	case s > 0:
		return fmt.Sprintf("(_ BitVec %d)", int(s))
	case s == SBool:
		return "Bool"
	case s == SInt:
		return "Int"
	case s == SReal:
		return "Real"
	}
	panic("bad sort")
}

type Term struct {
	id   int64
	op   string // "const", "var", or an SMT operator (possibly indexed, e.g. "(_ extract 7 0)")
	sort Sort
	args []*Term
	val  uint64 // bit-vector constant (width <= 64) / bool const (0,1)
	name string // variable name, or literal text for Int/Real constants
	size int    // number of nodes (saturating), for diagnostics
}

var termCounter int64

func newTerm(op string, sort Sort, args ...*Term) *Term {
	t := &Term{id: atomic.AddInt64(&termCounter, 1), op: op, sort: sort, args: args}
	return t
}

func mask(w Sort) uint64 {
	if w >= 64 {
		return ^uint64(0)
	}
	return (uint64(1) << uint(w)) - 1
}

func BVConst(w Sort, v uint64) *Term {
	t := newTerm("const", w)
	t.val = v & mask(w)
	return t
}

var (
	TrueT  = &Term{id: -1, op: "const", sort: SBool, val: 1}
	FalseT = &Term{id: -2, op: "const", sort: SBool, val: 0}
)

func BoolConst(b bool) *Term {
	if b {
		return TrueT
	}
	return FalseT
}

func IntConst(v int64) *Term {
	t := newTerm("const", SInt)
	if v < 0 {
		t.name = fmt.Sprintf("(- %d)", -v)
	} else {
		t.name = fmt.Sprintf("%d", v)
	}
	return t
}

func RealConst(text string) *Term {
	t := newTerm("const", SReal)
	t.name = text
	return t
}

func Var(name string, sort Sort) *Term {
	t := newTerm("var", sort)
	t.name = name
	return t
}

func (t *Term) isConst() bool { return t.op == "const" }
func (t *Term) IsTrue() bool  { return t.op == "const" && t.sort == SBool && t.val == 1 }
func (t *Term) IsFalse() bool { return t.op == "const" && t.sort == SBool && t.val == 0 }

// leaf text
func (t *Term) leaf() string {
	switch t.op {
	case "const":
		switch {
		case t.sort > 0:
			if t.sort%4 == 0 {
				return fmt.Sprintf("#x%0*x", int(t.sort)/4, t.val)
			}
			return fmt.Sprintf("#b%0*b", int(t.sort), t.val)
		case t.sort == SBool:
			if t.val == 1 {
				return "true"
			}
			return "false"
		default:
			return t.name
		}
	case "var":
		return t.name
	}
	return fmt.Sprintf("t%d", t.id)
}

func (t *Term) isLeaf() bool { return t.op == "const" || t.op == "var" }

// body prints the node with its children referenced by name.
func (t *Term) body() string {
	if t.isLeaf() {
		return t.leaf()
	}
	var sb strings.Builder
	sb.WriteByte('(')
	sb.WriteString(t.op)
	for _, a := range t.args {
		sb.WriteByte(' ')
		sb.WriteString(a.leaf())
	}
	sb.WriteByte(')')
	return sb.String()
}

// ---- constructors with light simplification ----

func Not(a *Term) *Term {
	if a.IsTrue() {
		return FalseT
	}
	if a.IsFalse() {
		return TrueT
	}
	if a.op == "not" {
		return a.args[0]
	}
	return newTerm("not", SBool, a)
}

func And(as ...*Term) *Term {
	var out []*Term
	for _, a := range as {
		if a.IsFalse() {
			return FalseT
		}
		if a.IsTrue() {
			continue
		}
		out = append(out, a)
	}
	switch len(out) {
	case 0:
		return TrueT
	case 1:
		return out[0]
	}
	return newTerm("and", SBool, out...)
}

func Or(as ...*Term) *Term {
	var out []*Term
	for _, a := range as {
		if a.IsTrue() {
			return TrueT
		}
		if a.IsFalse() {
			continue
		}
		out = append(out, a)
	}
	switch len(out) {
	case 0:
		return FalseT
	case 1:
		return out[0]
	}
	return newTerm("or", SBool, out...)
}

func Implies(a, b *Term) *Term { return Or(Not(a), b) }

func Ite(c, a, b *Term) *Term {
	if c.IsTrue() {
		return a
	}
	if c.IsFalse() {
		return b
	}
	if a == b {
		return a
	}
	if a.sort == SBool {
		if a.IsTrue() && b.IsFalse() {
			return c
		}
		if a.IsFalse() && b.IsTrue() {
			return Not(c)
		}
	}
	return newTerm("ite", a.sort, c, a, b)
}

func Eq(a, b *Term) *Term {
	if a == b {
		return TrueT
	}
	if a.isConst() && b.isConst() && a.sort == b.sort && a.sort >= 0 {
		return BoolConst(a.val == b.val)
	}
	if a.sort == SBool {
		if a.IsTrue() {
			return b
		}
		if b.IsTrue() {
			return a
		}
		if a.IsFalse() {
			return Not(b)
		}
		if b.IsFalse() {
			return Not(a)
		}
	}
	return newTerm("=", SBool, a, b)
}

func signExt64(w Sort, v uint64) int64 {
	if w >= 64 {
		return int64(v)
	}
	sh := 64 - uint(w)
	return int64(v<<sh) >> sh
}

// BVBin builds a bit-vector binary operation; folds constants.
func BVBin(op string, a, b *Term) *Term {
	if a.sort != b.sort {
		panic(fmt.Sprintf("BVBin %s: sort mismatch %v %v", op, a.sort, b.sort))
	}
	w := a.sort
	if a.isConst() && b.isConst() {
		x, y := a.val, b.val
		sx, sy := signExt64(w, x), signExt64(w, y)
		switch op {
		case "bvadd":
			return BVConst(w, x+y)
		case "bvsub":
			return BVConst(w, x-y)
		case "bvmul":
			return BVConst(w, x*y)
		case "bvand":
			return BVConst(w, x&y)
		case "bvor":
			return BVConst(w, x|y)
		case "bvxor":
			return BVConst(w, x^y)
		case "bvshl":
			if y >= uint64(w) {
				return BVConst(w, 0)
			}
			return BVConst(w, x<<y)
		case "bvlshr":
			if y >= uint64(w) {
				return BVConst(w, 0)
			}
			return BVConst(w, x>>y)
		case "bvashr":
			if y >= uint64(w) {
				y = uint64(w) - 1
			}
			return BVConst(w, uint64(sx>>y))
		case "bvudiv":
			if y != 0 {
				return BVConst(w, x/y)
			}
		case "bvurem":
			if y != 0 {
				return BVConst(w, x%y)
			}
		case "bvsdiv":
			if y != 0 {
				return BVConst(w, uint64(sx/sy))
			}
		case "bvsrem":
			if y != 0 {
				return BVConst(w, uint64(sx%sy))
			}
		}
	}
	// identities
	switch op {
	case "bvor", "bvxor", "bvadd":
		if a.isConst() && a.val == 0 {
			return b
		}
		if b.isConst() && b.val == 0 {
			return a
		}
	case "bvsub", "bvshl", "bvlshr", "bvashr":
		if b.isConst() && b.val == 0 {
			return a
		}
	case "bvand":
		if (a.isConst() && a.val == 0) || (b.isConst() && b.val == 0) {
			return BVConst(w, 0)
		}
		if a.isConst() && a.val == mask(w) {
			return b
		}
		if b.isConst() && b.val == mask(w) {
			return a
		}
	}
	if op == "bvshl" && b.isConst() {
		// (zext x) << k stays a concat-friendly form for the solver; nothing to do.
	}
	return newTerm(op, w, a, b)
}

func BVCmp(op string, a, b *Term) *Term {
	if a.sort != b.sort {
		panic(fmt.Sprintf("BVCmp %s: sort mismatch %v %v", op, a.sort, b.sort))
	}
	if a.isConst() && b.isConst() {
		w := a.sort
		x, y := a.val, b.val
		sx, sy := signExt64(w, x), signExt64(w, y)
		switch op {
		case "bvult":
			return BoolConst(x < y)
		case "bvule":
			return BoolConst(x <= y)
		case "bvugt":
			return BoolConst(x > y)
		case "bvuge":
			return BoolConst(x >= y)
		case "bvslt":
			return BoolConst(sx < sy)
		case "bvsle":
			return BoolConst(sx <= sy)
		case "bvsgt":
			return BoolConst(sx > sy)
		case "bvsge":
			return BoolConst(sx >= sy)
		}
	}
	return newTerm(op, SBool, a, b)
}

func BVNot(a *Term) *Term {
	if a.isConst() {
		return BVConst(a.sort, ^a.val)
	}
	return newTerm("bvnot", a.sort, a)
}

func BVNeg(a *Term) *Term {
	if a.isConst() {
		return BVConst(a.sort, -a.val)
	}
	return newTerm("bvneg", a.sort, a)
}

func Extract(hi, lo int, a *Term) *Term {
	w := Sort(hi - lo + 1)
	if lo == 0 && w == a.sort {
		return a
	}
	if a.isConst() {
		return BVConst(w, a.val>>uint(lo))
	}
	// extract of zero_extend / sign_extend that stays within the original
	if (strings.HasPrefix(a.op, "(_ zero_extend") || strings.HasPrefix(a.op, "(_ sign_extend")) && Sort(hi) < a.args[0].sort {
		return Extract(hi, lo, a.args[0])
	}
	// extract of concat pieces
	if a.op == "concat" {
		lw := int(a.args[1].sort)
		if hi < lw {
			return Extract(hi, lo, a.args[1])
		}
		if lo >= lw {
			return Extract(hi-lw, lo-lw, a.args[0])
		}
	}
	return newTerm(fmt.Sprintf("(_ extract %d %d)", hi, lo), w, a)
}

func ZeroExt(to Sort, a *Term) *Term {
	if to == a.sort {
		return a
	}
	if a.isConst() {
		return BVConst(to, a.val)
	}
	return newTerm(fmt.Sprintf("(_ zero_extend %d)", int(to-a.sort)), to, a)
}

func SignExt(to Sort, a *Term) *Term {
	if to == a.sort {
		return a
	}
	if a.isConst() {
		return BVConst(to, uint64(signExt64(a.sort, a.val)))
	}
	return newTerm(fmt.Sprintf("(_ sign_extend %d)", int(to-a.sort)), to, a)
}

func Concat(hi, lo *Term) *Term {
	w := hi.sort + lo.sort
	if hi.isConst() && lo.isConst() && w <= 64 {
		return BVConst(w, hi.val<<uint(lo.sort)|lo.val)
	}
	return newTerm("concat", w, hi, lo)
}

// App builds an application of an arbitrary (e.g. uninterpreted or Int/Real) operator.
func App(op string, sort Sort, args ...*Term) *Term { return newTerm(op, sort, args...) }

// String renders the term fully inlined (for diagnostics only; may be large).
func (t *Term) String() string {
	var sb strings.Builder
	var rec func(t *Term, depth int)
	rec = func(t *Term, depth int) {
		if t.isLeaf() {
			sb.WriteString(t.leaf())
			return
		}
		if depth > 12 || sb.Len() > 4000 {
			sb.WriteString("…")
			return
		}
		sb.WriteByte('(')
		sb.WriteString(t.op)
		for _, a := range t.args {
			sb.WriteByte(' ')
			rec(a, depth+1)
		}
		sb.WriteByte(')')
	}
	rec(t, 0)
	return sb.String()
}
