package symx

// Decimal-string tokens and the viper configuration model.

import (
	"strings"
	"fmt"
	"go/types"
	"strconv"

	"golang.org/x/tools/go/ssa"
)

// decStr is the decimal rendering of a symbolic int64 ("%d" / strconv.FormatInt);
// the only things that can be done with it are parsing it back and passing it along.
type decStr struct {
	t *Term // 64-bit, signed interpretation
}

func addStringModels(P *Program) {
	h := P.hooks
	h["strconv.ParseInt"] = func(i *interpreter, fr *frame, fn *ssa.Function, args []value) value {
		base := int(asInt64(args[1]))
		bits := int(asInt64(args[2]))
		if d, ok := args[0].(decStr); ok {
			if base != 10 || bits != 64 {
				panic(unsupported{"ParseInt of decimal token with base/bitsize other than 10/64"})
			}
			return tuple{mkInt(types.Int64, d.t), iface{}}
		}
		n, err := strconv.ParseInt(goString(args[0], "ParseInt"), base, bits)
		return tuple{n, i.errOrNil(err)}
	}
	h["strconv.ParseUint"] = func(i *interpreter, fr *frame, fn *ssa.Function, args []value) value {
		base := int(asInt64(args[1]))
		bits := int(asInt64(args[2]))
		if d, ok := args[0].(decStr); ok {
			if base != 10 || bits != 64 {
				panic(unsupported{"ParseUint of decimal token with base/bitsize other than 10/64"})
			}
			// a negative rendering is a syntax error for ParseUint
			if i.branch(BVCmp("bvslt", d.t, BVConst(64, 0))) {
				return tuple{uint64(0), i.mkError("strconv.ParseUint: invalid syntax")}
			}
			return tuple{mkInt(types.Uint64, d.t), iface{}}
		}
		n, err := strconv.ParseUint(goString(args[0], "ParseUint"), base, bits)
		return tuple{n, i.errOrNil(err)}
	}
	h["strconv.FormatInt"] = func(i *interpreter, fr *frame, fn *ssa.Function, args []value) value {
		if s, ok := args[0].(symv); ok && asInt64(args[1]) == 10 {
			return decStr{s.t}
		}
		return strconv.FormatInt(i.concreteInt64(args[0], "FormatInt"), int(asInt64(args[1])))
	}
	reg := func(name string, f hookFn) { h[vsymPkg+"."+name] = f }
	reg("DecimalInt64", func(i *interpreter, fr *frame, fn *ssa.Function, args []value) value {
		v := i.symInt(goString(args[0], "vsym name"), types.Int64)
		if s, ok := v.(symv); ok {
			return decStr{s.t}
		}
		return strconv.FormatInt(v.(int64), 10)
	})
	reg("ParseDecimal", func(i *interpreter, fr *frame, fn *ssa.Function, args []value) value {
		if d, ok := args[0].(decStr); ok {
			return mkInt(types.Int64, d.t)
		}
		n, err := strconv.ParseInt(goString(args[0], "ParseDecimal"), 10, 64)
		if err != nil {
			panic(pathEnd{"assume: ParseDecimal of a non-number"})
		}
		return n
	})

	// ---- viper: a configuration map set by the harness ----
	const vp = "github.com/spf13/viper"
	cfg := func(i *interpreter) map[string]value {
		if m, ok := i.models["viper"]; ok {
			return m.(map[string]value)
		}
		m := map[string]value{}
		i.models["viper"] = m
		return m
	}
	h[vp+".Set"] = func(i *interpreter, fr *frame, fn *ssa.Function, args []value) value {
		v := args[1]
		if itf, ok := v.(iface); ok {
			v = itf.v
		}
		cfg(i)[goString(args[0], "viper key")] = v
		return nil
	}
	h[vp+".GetString"] = func(i *interpreter, fr *frame, fn *ssa.Function, args []value) value {
		v, ok := cfg(i)[goString(args[0], "viper key")]
		if !ok {
			return ""
		}
		switch s := v.(type) {
		case string, opaqueStr, decStr:
			return s
		}
		return fmt.Sprint(v)
	}
	h[vp+".GetBool"] = func(i *interpreter, fr *frame, fn *ssa.Function, args []value) value {
		v, ok := cfg(i)[goString(args[0], "viper key")]
		if !ok {
			return false
		}
		b, _ := v.(bool)
		return b
	}
	h[vp+".GetInt"] = func(i *interpreter, fr *frame, fn *ssa.Function, args []value) value {
		v, ok := cfg(i)[goString(args[0], "viper key")]
		if !ok {
			return 0
		}
		n, _ := v.(int)
		return n
	}
	h[vp+".GetStringSlice"] = func(i *interpreter, fr *frame, fn *ssa.Function, args []value) value {
		v, ok := cfg(i)[goString(args[0], "viper key")]
		if !ok {
			return []value(nil)
		}
		s, _ := v.([]value)
		return s
	}
	// nested settings: "a.b" looks b up in the map stored under a; keys are case-insensitive and the
	// maps handed out have lower-cased keys, as in viper
	unbox := func(v value) value {
		if itf, ok := v.(iface); ok {
			return itf.v
		}
		return v
	}
	resolve := func(i *interpreter, key string) (value, bool) {
		if v, ok := cfg(i)[key]; ok {
			return unbox(v), true
		}
		parts := strings.Split(key, ".")
		for cut := len(parts) - 1; cut >= 1; cut-- {
			v, ok := cfg(i)[strings.Join(parts[:cut], ".")]
			if !ok {
				continue
			}
			cur := unbox(v)
			found := true
			for _, p := range parts[cut:] {
				m, isMap := cur.(*hashmap)
				if !isMap || m == nil {
					found = false
					break
				}
				var next value
				hit := false
				for _, e := range m.list {
					if !e.dead {
						if ks, ok := e.key.(string); ok && strings.EqualFold(ks, p) {
							next, hit = unbox(e.value), true
						}
					}
				}
				if !hit {
					found = false
					break
				}
				cur = next
			}
			if found {
				return cur, true
			}
		}
		return nil, false
	}
	lowerKeys := func(fn *ssa.Function, v value, box bool) value {
		mt := fn.Signature.Results().At(0).Type().Underlying().(*types.Map)
		out := makeMap(mt.Key(), 0).(*hashmap)
		if m, ok := v.(*hashmap); ok && m != nil {
			for _, e := range m.list {
				if e.dead {
					continue
				}
				ks, _ := e.key.(string)
				val := e.value
				if !box {
					val = unbox(val)
				}
				out.insert(strings.ToLower(ks), val)
			}
		}
		return out
	}
	h[vp+".GetStringMap"] = func(i *interpreter, fr *frame, fn *ssa.Function, args []value) value {
		v, _ := resolve(i, goString(args[0], "viper key"))
		return lowerKeys(fn, v, true)
	}
	h[vp+".GetStringMapStringSlice"] = func(i *interpreter, fr *frame, fn *ssa.Function, args []value) value {
		v, _ := resolve(i, goString(args[0], "viper key"))
		return lowerKeys(fn, v, false)
	}
	h[vp+".GetStringMapString"] = func(i *interpreter, fr *frame, fn *ssa.Function, args []value) value {
		v, _ := resolve(i, goString(args[0], "viper key"))
		return lowerKeys(fn, v, false)
	}
	// viper.Unmarshal into a struct with mapstructure tags: strings, pointers to such structs and slices
	// of them, filled from the configuration map (what dirk uses it for: the stores list)
	var fill func(i *interpreter, t types.Type, src value) value
	fill = func(i *interpreter, t types.Type, src value) value {
		src = unbox(src)
		switch tt := t.Underlying().(type) {
		case *types.Basic:
			if tt.Kind() == types.String {
				if sv, ok := src.(string); ok {
					return sv
				}
				return ""
			}
			return zero(t)
		case *types.Pointer:
			if src == nil {
				return zero(t)
			}
			cell := fill(i, tt.Elem(), src)
			return &cell
		case *types.Slice:
			list, ok := src.([]value)
			if !ok {
				return zero(t)
			}
			out := make([]value, 0, len(list))
			for _, e := range list {
				out = append(out, fill(i, tt.Elem(), e))
			}
			return out
		case *types.Struct:
			res := zero(t).(structure)
			m, _ := src.(*hashmap)
			for k := 0; k < tt.NumFields(); k++ {
				name := strings.ToLower(tt.Field(k).Name())
				if tag := reflectTag(tt.Tag(k), "mapstructure"); tag != "" {
					name = strings.ToLower(tag)
				}
				if m == nil {
					continue
				}
				for _, e := range m.list {
					if ks, ok := e.key.(string); ok && !e.dead && strings.ToLower(ks) == name {
						res[k] = fill(i, tt.Field(k).Type(), e.value)
					}
				}
			}
			return res
		}
		return zero(t)
	}
	h[vp+".Unmarshal"] = func(i *interpreter, fr *frame, fn *ssa.Function, args []value) value {
		target, ok := args[0].(iface)
		if !ok || target.t == nil {
			return i.mkError("viper: Unmarshal(nil)")
		}
		pt, ok := target.t.Underlying().(*types.Pointer)
		if !ok {
			return i.mkError("viper: Unmarshal(non-pointer)")
		}
		// the whole configuration as one map
		root := makeMap(types.Typ[types.String], 0).(*hashmap)
		for k, v := range cfg(i) {
			if !strings.Contains(k, ".") {
				root.insert(k, v)
			}
		}
		dst := target.v.(*value)
		store(pt.Elem(), dst, fill(i, pt.Elem(), root))
		return iface{}
	}
	h[vp+".GetDuration"] = func(i *interpreter, fr *frame, fn *ssa.Function, args []value) value {
		v, ok := cfg(i)[goString(args[0], "viper key")]
		if !ok {
			return int64(0)
		}
		n, _ := v.(int64)
		return n
	}
}

// reflectTag extracts key:"value" from a struct tag.
func reflectTag(tag, key string) string {
	k := strings.Index(tag, key+":\"")
	if k < 0 {
		return ""
	}
	rest := tag[k+len(key)+2:]
	if e := strings.Index(rest, "\""); e >= 0 {
		return strings.Split(rest[:e], ",")[0]
	}
	return ""
}
