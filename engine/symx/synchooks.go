package symx

import (
	"go/token"
	"go/types"

	"golang.org/x/tools/go/ssa"
)

const tokenSUB = token.SUB

func (i *interpreter) timeNow(fn *ssa.Function) value {
	// wall=0 (no monotonic reading), ext = the model clock in nanoseconds.
	i.clockReads++
	var ext value
	if i.clock != nil {
		ext = i.clock(i)
	} else {
		ext = int64(1_000_000_000) + i.clockBase + int64(i.clockReads)
	}
	return structure{uint64(0), ext, (*value)(nil)}
}

// model timers (time.AfterFunc): they fire when the harness advances the clock past their deadline
type modelTimer struct {
	deadline int64
	fn       value    // time.AfterFunc: run in a new goroutine
	ch       *channel // time.NewTimer / time.After: receives the time (capacity 1)
	stopped  bool
	fired    bool
}

// nextTimer: the pending timer with the earliest deadline.
func (i *interpreter) nextTimer() *modelTimer {
	var best *modelTimer
	for _, t := range i.timers {
		if !t.stopped && !t.fired && (best == nil || t.deadline < best.deadline) {
			best = t
		}
	}
	return best
}

// passTime: nothing can run but a timer is pending: time passes until the earliest one fires.
func (i *interpreter) passTime() bool {
	t := i.nextTimer()
	if t == nil {
		return false
	}
	if d := t.deadline - i.nowNanos(); d > 0 {
		i.clockBase += d
	}
	i.fireTimers()
	return true
}

func (i *interpreter) nowNanos() int64 { return int64(1_000_000_000) + i.clockBase + int64(i.clockReads) }

func (i *interpreter) fireTimers() {
	for {
		var due *modelTimer
		for _, t := range i.timers {
			if !t.stopped && !t.fired && t.deadline <= i.nowNanos() {
				if due == nil || t.deadline < due.deadline {
					due = t
				}
			}
		}
		if due == nil {
			return
		}
		due.fired = true
		if due.ch != nil {
			if len(due.ch.buf) < due.ch.cap {
				due.ch.buf = append(due.ch.buf, structure{uint64(0), i.nowNanos(), (*value)(nil)})
			}
			continue
		}
		fn := due.fn
		i.spawnThread(0, &nativeFunc{name: "timer", f: func(i *interpreter, _ []value) value { return call(i, nil, 0, fn, nil) }}, nil, false)
	}
}

func anyType() types.Type { return types.NewInterfaceType(nil, nil).Complete() }

var theAnyType = anyType()

func addSyncHooks(h map[string]hookFn) {
	ptr := func(v value) *value {
		p := v.(*value)
		if p == nil {
			panic(runtimeErrorString("runtime error: invalid memory address or nil pointer dereference"))
		}
		return p
	}
	h["github.com/jackc/puddle.nanotime"] = func(i *interpreter, fr *frame, fn *ssa.Function, args []value) value {
		return i.nowNanos()
	}
	h["time.AfterFunc"] = func(i *interpreter, fr *frame, fn *ssa.Function, args []value) value {
		t := &modelTimer{deadline: i.nowNanos() + i.concreteInt64(args[0], "timer duration"), fn: args[1]}
		i.timers = append(i.timers, t)
		return newHandle(t)
	}
	newChanTimer := func(i *interpreter, d value) *value {
		t := &modelTimer{deadline: i.nowNanos() + i.concreteInt64(d, "timer duration"), ch: i.makeChan(1)}
		i.timers = append(i.timers, t)
		cell := value(structure{t.ch, true}) // struct Timer { C <-chan Time; initTimer bool }
		i.side[&cell] = t
		return &cell
	}
	h["time.NewTimer"] = func(i *interpreter, fr *frame, fn *ssa.Function, args []value) value {
		return newChanTimer(i, args[0])
	}
	h["time.After"] = func(i *interpreter, fr *frame, fn *ssa.Function, args []value) value {
		return (*newChanTimer(i, args[0])).(structure)[0]
	}
	h["(*time.Timer).Reset"] = func(i *interpreter, fr *frame, fn *ssa.Function, args []value) value {
		var t *modelTimer
		if p, ok := args[0].(*value); ok && i.side[p] != nil {
			t = i.side[p].(*modelTimer)
		} else {
			t = handleOf(args[0]).(*modelTimer)
		}
		was := !t.stopped && !t.fired
		t.stopped, t.fired = false, false
		t.deadline = i.nowNanos() + i.concreteInt64(args[1], "timer duration")
		return was
	}
	h["(*time.Timer).Stop"] = func(i *interpreter, fr *frame, fn *ssa.Function, args []value) value {
		if p, ok := args[0].(*value); ok && i.side[p] != nil {
			t := i.side[p].(*modelTimer)
			was := !t.stopped && !t.fired
			t.stopped = true
			return was
		}
		t := handleOf(args[0]).(*modelTimer)
		was := !t.stopped && !t.fired
		t.stopped = true
		return was
	}
	h["(*sync.Mutex).Lock"] = func(i *interpreter, fr *frame, fn *ssa.Function, args []value) value {
		i.mutexLock(ptr(args[0]), "Mutex.Lock")
		return nil
	}
	h["(*sync.Mutex).Unlock"] = func(i *interpreter, fr *frame, fn *ssa.Function, args []value) value {
		i.mutexUnlock(ptr(args[0]))
		return nil
	}
	h["(*sync.Mutex).TryLock"] = func(i *interpreter, fr *frame, fn *ssa.Function, args []value) value {
		return i.mutexTryLock(ptr(args[0]))
	}
	h["(*sync.RWMutex).Lock"] = func(i *interpreter, fr *frame, fn *ssa.Function, args []value) value {
		i.mutexLock(ptr(args[0]), "RWMutex.Lock")
		return nil
	}
	h["(*sync.RWMutex).Unlock"] = func(i *interpreter, fr *frame, fn *ssa.Function, args []value) value {
		i.mutexUnlock(ptr(args[0]))
		return nil
	}
	h["(*sync.RWMutex).RLock"] = func(i *interpreter, fr *frame, fn *ssa.Function, args []value) value {
		i.mutexRLock(ptr(args[0]))
		return nil
	}
	h["(*sync.RWMutex).RUnlock"] = func(i *interpreter, fr *frame, fn *ssa.Function, args []value) value {
		i.mutexRUnlock(ptr(args[0]))
		return nil
	}

	// sync.Map: an ordered map in the side table
	smap := func(i *interpreter, p *value) *hashmap {
		if m, ok := i.side[p]; ok {
			return m.(*hashmap)
		}
		m := makeMap(theAnyType, 0).(*hashmap)
		i.side[p] = m
		return m
	}
	h["(*sync.Map).Load"] = func(i *interpreter, fr *frame, fn *ssa.Function, args []value) value {
		i.yield("sync.Map.Load")
		v, ok := i.mapLookup(smap(i, ptr(args[0])), args[1])
		if !ok {
			return tuple{iface{}, false}
		}
		return tuple{v, true}
	}
	h["(*sync.Map).Store"] = func(i *interpreter, fr *frame, fn *ssa.Function, args []value) value {
		i.yield("sync.Map.Store")
		i.mapUpdate(smap(i, ptr(args[0])), args[1], args[2])
		return nil
	}
	h["(*sync.Map).LoadOrStore"] = func(i *interpreter, fr *frame, fn *ssa.Function, args []value) value {
		i.yield("sync.Map.LoadOrStore")
		m := smap(i, ptr(args[0]))
		if v, ok := i.mapLookup(m, args[1]); ok {
			return tuple{v, true}
		}
		i.mapUpdate(m, args[1], args[2])
		return tuple{args[2], false}
	}
	h["(*sync.Map).LoadAndDelete"] = func(i *interpreter, fr *frame, fn *ssa.Function, args []value) value {
		i.yield("sync.Map.LoadAndDelete")
		m := smap(i, ptr(args[0]))
		if v, ok := i.mapLookup(m, args[1]); ok {
			i.mapDelete(m, args[1])
			return tuple{v, true}
		}
		return tuple{iface{}, false}
	}
	h["(*sync.Map).Delete"] = func(i *interpreter, fr *frame, fn *ssa.Function, args []value) value {
		i.yield("sync.Map.Delete")
		i.mapDelete(smap(i, ptr(args[0])), args[1])
		return nil
	}
	h["(*sync.Map).Range"] = func(i *interpreter, fr *frame, fn *ssa.Function, args []value) value {
		m := smap(i, ptr(args[0]))
		it := m.iterator()
		for {
			t := it.next()
			if !t[0].(bool) {
				break
			}
			r := call(i, fr, 0, args[1], []value{t[1], t[2]})
			if !i.truth(r) {
				break
			}
		}
		return nil
	}

	// sync.Once
	h["(*sync.Once).Do"] = func(i *interpreter, fr *frame, fn *ssa.Function, args []value) value {
		p := ptr(args[0])
		var st *onceState
		if s, ok := i.side[p]; ok {
			st = s.(*onceState)
		} else {
			st = &onceState{}
			i.side[p] = st
		}
		if st.done {
			return nil
		}
		if st.running {
			i.block(func() bool { return st.done }, "sync.Once")
			return nil
		}
		st.running = true
		call(i, fr, 0, args[1], nil)
		st.done = true
		return nil
	}

	// sync.WaitGroup
	wg := func(i *interpreter, p *value) *wgState {
		if s, ok := i.side[p]; ok {
			return s.(*wgState)
		}
		s := &wgState{}
		i.side[p] = s
		return s
	}
	h["(*sync.WaitGroup).Add"] = func(i *interpreter, fr *frame, fn *ssa.Function, args []value) value {
		s := wg(i, ptr(args[0]))
		s.n += int(asInt64(args[1]))
		if s.n < 0 {
			panic(runtimeErrorString("sync: negative WaitGroup counter"))
		}
		return nil
	}
	h["(*sync.WaitGroup).Done"] = func(i *interpreter, fr *frame, fn *ssa.Function, args []value) value {
		s := wg(i, ptr(args[0]))
		s.n--
		if s.n < 0 {
			panic(runtimeErrorString("sync: negative WaitGroup counter"))
		}
		return nil
	}
	h["(*sync.WaitGroup).Wait"] = func(i *interpreter, fr *frame, fn *ssa.Function, args []value) value {
		s := wg(i, ptr(args[0]))
		i.block(func() bool { return s.n == 0 }, "WaitGroup.Wait")
		return nil
	}

	// sync.Cond: a queue of waiters in the side table; Wait releases c.L, parks until signalled and
	// re-acquires c.L (no spurious wake-ups, as in the runtime)
	type condWaiter struct{ woken bool }
	type condState struct{ q []*condWaiter }
	cond := func(i *interpreter, p *value) *condState {
		if s, ok := i.side[p]; ok {
			return s.(*condState)
		}
		s := &condState{}
		i.side[p] = s
		return s
	}
	condL := func(p *value) iface {
		st := (*p).(structure)
		return st[1].(iface) // struct Cond { noCopy; L Locker; notify; checker }
	}
	h["(*sync.Cond).Wait"] = func(i *interpreter, fr *frame, fn *ssa.Function, args []value) value {
		p := ptr(args[0])
		cs := cond(i, p)
		w := &condWaiter{}
		cs.q = append(cs.q, w)
		if _, ok := i.callMethod(condL(p), "Unlock"); !ok {
			panic(unsupported{"sync.Cond.Wait: locker without Unlock"})
		}
		i.block(func() bool { return w.woken }, "Cond.Wait")
		i.callMethod(condL(p), "Lock")
		return nil
	}
	h["(*sync.Cond).Signal"] = func(i *interpreter, fr *frame, fn *ssa.Function, args []value) value {
		cs := cond(i, ptr(args[0]))
		i.yield("Cond.Signal")
		if len(cs.q) > 0 {
			cs.q[0].woken = true
			cs.q = cs.q[1:]
		}
		return nil
	}
	h["(*sync.Cond).Broadcast"] = func(i *interpreter, fr *frame, fn *ssa.Function, args []value) value {
		cs := cond(i, ptr(args[0]))
		i.yield("Cond.Broadcast")
		for _, w := range cs.q {
			w.woken = true
		}
		cs.q = nil
		return nil
	}

	// sync.Pool: never reuses
	h["(*sync.Pool).Get"] = func(i *interpreter, fr *frame, fn *ssa.Function, args []value) value {
		p := ptr(args[0])
		st := (*p).(structure)
		newFn := st[len(st)-1]
		switch f := newFn.(type) {
		case *ssa.Function:
			if f == nil {
				return iface{}
			}
		case *closure:
			if f == nil {
				return iface{}
			}
		}
		return call(i, fr, 0, newFn, nil)
	}
	h["(*sync.Pool).Put"] = func(i *interpreter, fr *frame, fn *ssa.Function, args []value) value { return nil }

	// sync/atomic on plain cells
	add := func(i *interpreter, fr *frame, fn *ssa.Function, args []value) value {
		p := ptr(args[0])
		*p = i.binop(token.ADD, nil, *p, args[1])
		return *p
	}
	load := func(i *interpreter, fr *frame, fn *ssa.Function, args []value) value { return *ptr(args[0]) }
	store := func(i *interpreter, fr *frame, fn *ssa.Function, args []value) value {
		*ptr(args[0]) = args[1]
		return nil
	}
	swap := func(i *interpreter, fr *frame, fn *ssa.Function, args []value) value {
		p := ptr(args[0])
		old := *p
		*p = args[1]
		return old
	}
	cas := func(i *interpreter, fr *frame, fn *ssa.Function, args []value) value {
		p := ptr(args[0])
		if i.truth(i.binop(token.EQL, fn.Signature.Params().At(1).Type(), *p, args[1])) {
			*p = args[2]
			return true
		}
		return false
	}
	for _, ty := range []string{"Int32", "Int64", "Uint32", "Uint64", "Uintptr"} {
		h["sync/atomic.Add"+ty] = add
		h["sync/atomic.Load"+ty] = load
		h["sync/atomic.Store"+ty] = store
		h["sync/atomic.Swap"+ty] = swap
		h["sync/atomic.CompareAndSwap"+ty] = cas
	}
	h["sync/atomic.LoadPointer"] = load
	h["sync/atomic.StorePointer"] = store
}
