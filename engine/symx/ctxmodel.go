package symx

// Model of context.WithCancel: a native context object whose Done channel is a model channel.
// Cancellation propagates to contexts derived from it with WithCancel; WithValue contexts (real
// valueCtx structures) reach it through their embedded parent.

import (
	"go/types"
)

var cancelCtxType types.Type = types.NewNamed(types.NewTypeName(0, nil, "verif.cancelCtx", nil), types.NewStruct(nil, nil), nil)

type cancelCtxState struct {
	parent   iface
	done     *channel
	err      value
	children []*cancelCtxState
}

func (st *cancelCtxState) cancel(i *interpreter) {
	if st.done.closed {
		return
	}
	st.done.closed = true
	st.err = i.mkError("context canceled")
	for _, c := range st.children {
		c.cancel(i)
	}
}

// nearestCancel finds the closest cancellable ancestor of a context value (through valueCtx wrappers).
func (i *interpreter) nearestCancel(c iface) *cancelCtxState {
	for depth := 0; depth < 32 && c.t != nil; depth++ {
		if c.t == cancelCtxType {
			return c.v.(nativeHandle).v.(*cancelCtxState)
		}
		if c.t == i.P.valueCtxPtr {
			st := (*c.v.(*value)).(structure)
			c = st[0].(iface)
			continue
		}
		return nil
	}
	return nil
}

func (i *interpreter) newCancelCtx(parent iface) value {
	st := &cancelCtxState{parent: parent, done: i.makeChan(0), err: iface{}}
	if p := i.nearestCancel(parent); p != nil {
		if p.done.closed {
			st.cancel(i)
		} else {
			p.children = append(p.children, st)
		}
	}
	ctx := iface{t: cancelCtxType, v: nativeHandle{st}}
	cancel := &nativeFunc{name: "context.cancel", f: func(i *interpreter, _ []value) value {
		i.yield("context.cancel")
		st.cancel(i)
		return nil
	}}
	return tuple{ctx, cancel}
}

func init() {
	st := func(recv value) *cancelCtxState { return recv.(nativeHandle).v.(*cancelCtxState) }
	nativeMethods[cancelCtxType] = map[string]nativeMethodFn{
		"Done": func(i *interpreter, recv value, args []value) value { return st(recv).done },
		"Err":  func(i *interpreter, recv value, args []value) value { return st(recv).err },
		"Deadline": func(i *interpreter, recv value, args []value) value {
			return tuple{structure{uint64(0), int64(0), (*value)(nil)}, false}
		},
		"Value": func(i *interpreter, recv value, args []value) value {
			p := st(recv).parent
			if p.t == nil {
				return iface{}
			}
			if v, ok := i.callMethod(p, "Value", args[0]); ok {
				return v
			}
			return iface{}
		},
	}
}
