package symx

// Recorders for crypto/tls, crypto/x509, grpc and net: they capture the
// configuration dirk hands to the transport layer (C19).  The TLS handshake,
// certificate verification and the gRPC transport are trusted libraries.

import (
	"encoding/pem"
	"encoding/hex"
	"fmt"
	"go/types"
	"strings"

	"golang.org/x/tools/go/ssa"
)

type recPool struct{ pems [][]byte }

type recCreds struct {
	clientAuth   int64
	minVersion   int64
	clientCAs    *recPool
	certificates int
	ownName      string // common name of the own certificate (model encoding LEAF:<name>)
	weakening    []string // tls.Config settings that can weaken client authentication
}

type recListener struct{ addr string }

type recConn struct {
	target string
	creds  *recCreds
}

type recServer struct {
	addr  string // listen address once serving
	unary value            // the server's unary interceptor (executed by vsym.Invoke)
	impl  map[string]iface // registered service implementations by service name
	creds        *recCreds
	interceptors []string
	hasUnary     bool
	registered   []string
	served       int
}

type grpcRec struct {
	servers []*recServer
	listens []string
	chain   []string
}

func (i *interpreter) grec() *grpcRec {
	if r, ok := i.models["grpcrec"]; ok {
		return r.(*grpcRec)
	}
	r := &grpcRec{}
	i.models["grpcrec"] = r
	return r
}

type recOption struct {
	fn    value // the unary interceptor function
	kind  string
	creds *recCreds
	names []string
}

func structField(v value, t types.Type, name string) value {
	st := t.Underlying().(*types.Struct)
	for k := 0; k < st.NumFields(); k++ {
		if st.Field(k).Name() == name {
			return v.(structure)[k]
		}
	}
	panic("no field " + name)
}

func addGRPCModel(P *Program) {
	h := P.hooks
	h["crypto/tls.X509KeyPair"] = func(i *interpreter, fr *frame, fn *ssa.Function, args []value) value {
		ct := fn.Signature.Results().At(0).Type()
		if i.fault("tls.X509KeyPair") {
			return tuple{zero(ct), i.mkError("tls: failed to find any PEM data in certificate input")}
		}
		c := zero(ct).(structure)
		// the certificate chain of the key pair (DER of every CERTIFICATE block of the file)
		var chain []value
		rest := goBytesOrNil(args[0])
		for {
			var blk *pem.Block
			blk, rest = pem.Decode(rest)
			if blk == nil {
				break
			}
			if blk.Type == "CERTIFICATE" {
				chain = append(chain, value(fromBytes(blk.Bytes)))
			}
		}
		c[fieldIndex(ct, "Certificate")] = chain
		return tuple{c, iface{}}
	}
	// certificates of the model: the DER bytes are ASCII, "CA:<name>" for an authority and "LEAF:<name>"
	// for an end-entity certificate; anything else does not parse
	parseCert := func(i *interpreter, fn *ssa.Function, der []byte) value {
		ct := mustDeref(fn.Signature.Results().At(0).Type())
		if sl, ok := fn.Signature.Results().At(0).Type().Underlying().(*types.Slice); ok {
			ct = mustDeref(sl.Elem())
		}
		txt := string(der)
		isCA := strings.HasPrefix(txt, "CA:")
		if !isCA && !strings.HasPrefix(txt, "LEAF:") {
			return nil
		}
		c := zero(ct).(structure)
		c[fieldIndex(ct, "Raw")] = fromBytes(der)
		c[fieldIndex(ct, "IsCA")] = isCA
		c[fieldIndex(ct, "BasicConstraintsValid")] = true
		subj := c[fieldIndex(ct, "Subject")].(structure)
		st := ct.Underlying().(*types.Struct)
		for k := 0; k < st.NumFields(); k++ {
			if st.Field(k).Name() == "Subject" {
				subj[fieldIndex(st.Field(k).Type(), "CommonName")] = txt[strings.Index(txt, ":")+1:]
			}
		}
		cell := value(c)
		return &cell
	}
	h["crypto/x509.ParseCertificate"] = func(i *interpreter, fr *frame, fn *ssa.Function, args []value) value {
		c := parseCert(i, fn, goBytes(args[0], "x509.ParseCertificate"))
		if c == nil {
			return tuple{(*value)(nil), i.mkError("x509: malformed certificate")}
		}
		return tuple{c, iface{}}
	}
	h["(*crypto/x509.CertPool).AddCert"] = func(i *interpreter, fr *frame, fn *ssa.Function, args []value) value {
		p := handleOf(args[0]).(*recPool)
		cp := args[1].(*value)
		if cp == nil {
			panic(targetPanic{iface{t: types.Typ[types.String], v: "adding nil Certificate to CertPool"}})
		}
		ct := mustDeref(fn.Signature.Params().At(1).Type())
		raw := goBytes((*cp).(structure)[fieldIndex(ct, "Raw")], "CertPool.AddCert")
		p.pems = append(p.pems, append([]byte("DER:"), raw...))
		return nil
	}
	h["crypto/x509.NewCertPool"] = func(i *interpreter, fr *frame, fn *ssa.Function, args []value) value {
		return newHandle(&recPool{})
	}
	h["crypto/x509.SystemCertPool"] = func(i *interpreter, fr *frame, fn *ssa.Function, args []value) value {
		// the host's trust store: whatever authorities it holds are accepted issuers
		return tuple{newHandle(&recPool{pems: [][]byte{[]byte("<every authority in the host trust store>")}}), iface{}}
	}
	h["(*crypto/x509.CertPool).Clone"] = func(i *interpreter, fr *frame, fn *ssa.Function, args []value) value {
		p := handleOf(args[0]).(*recPool)
		return newHandle(&recPool{pems: append([][]byte(nil), p.pems...)})
	}
	h["(*crypto/x509.CertPool).AppendCertsFromPEM"] = func(i *interpreter, fr *frame, fn *ssa.Function, args []value) value {
		p := handleOf(args[0]).(*recPool)
		if i.fault("x509.AppendCertsFromPEM") {
			return false
		}
		p.pems = append(p.pems, goBytes(args[1], "AppendCertsFromPEM"))
		return true
	}
	h["google.golang.org/grpc/credentials.NewTLS"] = func(i *interpreter, fr *frame, fn *ssa.Function, args []value) value {
		cp, ok := args[0].(*value)
		if !ok || cp == nil {
			panic(runtimeErrorString("runtime error: invalid memory address or nil pointer dereference"))
		}
		ct := mustDeref(fn.Signature.Params().At(0).Type())
		cfg := *cp
		c := &recCreds{}
		c.clientAuth = asInt64(structField(cfg, ct, "ClientAuth"))
		c.minVersion = asInt64(structField(cfg, ct, "MinVersion"))
		if pp, ok := structField(cfg, ct, "ClientCAs").(*value); ok && pp != nil {
			c.clientCAs, _ = (*pp).(nativeHandle).v.(*recPool)
		}
		if certs, ok := structField(cfg, ct, "Certificates").([]value); ok {
			c.certificates = len(certs)
			if len(certs) > 0 {
				if cs, ok := certs[0].(structure); ok {
					for _, f := range cs {
						if chain, ok := f.([]value); ok && len(chain) > 0 {
							if der, ok := chain[0].([]value); ok && !containsSym(der) {
								txt := string(goBytes(der, "own certificate"))
								if k := strings.Index(txt, ":"); k >= 0 {
									c.ownName = txt[k+1:]
								}
							}
							break
						}
					}
				}
			}
		}
		// settings that can let a peer in without a certificate verified against ClientCAs
		st := ct.Underlying().(*types.Struct)
		for k := 0; k < st.NumFields(); k++ {
			name := st.Field(k).Name()
			switch name {
			case "InsecureSkipVerify", "GetConfigForClient", "Time", "Rand", "KeyLogWriter", "SessionTicketKey":
				if !isZeroish(cfg.(structure)[k]) {
					c.weakening = append(c.weakening, name)
				}
			}
		}
		if keys, ok := i.side[cp]; ok && keys.(int) > 0 {
			c.weakening = append(c.weakening, "SetSessionTicketKeys")
		}
		return iface{t: noopType, v: nativeHandle{c}}
	}
	h["(*crypto/tls.Config).SetSessionTicketKeys"] = func(i *interpreter, fr *frame, fn *ssa.Function, args []value) value {
		cp := args[0].(*value)
		if cp == nil {
			panic(runtimeErrorString("runtime error: invalid memory address or nil pointer dereference"))
		}
		keys, _ := args[1].([]value)
		if len(keys) == 0 {
			panic(targetPanic{iface{t: types.Typ[types.String], v: "tls: keys must have at least one key"}})
		}
		i.side[cp] = len(keys)
		return nil
	}
	opt := func(o *recOption) value { return iface{t: noopType, v: nativeHandle{o}} }
	h["google.golang.org/grpc.Creds"] = func(i *interpreter, fr *frame, fn *ssa.Function, args []value) value {
		o := &recOption{kind: "creds"}
		if itf, ok := args[0].(iface); ok {
			if nh, ok := itf.v.(nativeHandle); ok {
				o.creds, _ = nh.v.(*recCreds)
			}
		}
		return opt(o)
	}
	h["google.golang.org/grpc.StatsHandler"] = func(i *interpreter, fr *frame, fn *ssa.Function, args []value) value {
		return opt(&recOption{kind: "stats"})
	}
	h["google.golang.org/grpc.UnaryInterceptor"] = func(i *interpreter, fr *frame, fn *ssa.Function, args []value) value {
		o := &recOption{kind: "unary", fn: args[0]}
		if nf, ok := args[0].(*nativeFunc); ok && nf.name == "chain" {
			o.names = i.grec().chain
		} else if c, ok := args[0].(*closure); ok {
			o.names = []string{c.Fn.String()}
		}
		return opt(o)
	}
	h["github.com/grpc-ecosystem/go-grpc-middleware.ChainUnaryServer"] = func(i *interpreter, fr *frame, fn *ssa.Function, args []value) value {
		r := i.grec()
		r.chain = nil
		for _, a := range args[0].([]value) {
			switch f := a.(type) {
			case *closure:
				r.chain = append(r.chain, f.Fn.String())
			case *ssa.Function:
				r.chain = append(r.chain, f.String())
			default:
				r.chain = append(r.chain, fmt.Sprintf("%T", a))
			}
		}
		ics := append([]value(nil), args[0].([]value)...)
		return &nativeFunc{name: "chain", f: func(i *interpreter, cargs []value) value {
			// cargs: ctx, req, info, handler — run the interceptors in order, each one's handler being the rest
			info, final := cargs[2], cargs[3]
			var run func(k int, ctx, req value) value
			run = func(k int, ctx, req value) value {
				for k < len(ics) && isNilFunc(ics[k]) {
					k++
				}
				if k >= len(ics) {
					return call(i, nil, 0, final, []value{ctx, req})
				}
				next := &nativeFunc{name: "chained-handler", f: func(i *interpreter, hargs []value) value { return run(k+1, hargs[0], hargs[1]) }}
				return call(i, nil, 0, ics[k], []value{ctx, req, info, next})
			}
			return run(0, cargs[0], cargs[1])
		}}
	}
	// the context-tags interceptor only decorates the context for logging: a pass-through here
	h["github.com/grpc-ecosystem/go-grpc-middleware/tags.UnaryServerInterceptor"] = func(i *interpreter, fr *frame, fn *ssa.Function, args []value) value {
		return &nativeFunc{name: "ctxtags", f: func(i *interpreter, a []value) value { return call(i, nil, 0, a[3], []value{a[0], a[1]}) }}
	}
	h["google.golang.org/grpc.NewServer"] = func(i *interpreter, fr *frame, fn *ssa.Function, args []value) value {
		s := &recServer{}
		for _, a := range args[0].([]value) {
			itf, ok := a.(iface)
			if !ok {
				continue
			}
			nh, ok := itf.v.(nativeHandle)
			if !ok {
				continue
			}
			o, ok := nh.v.(*recOption)
			if !ok {
				continue
			}
			switch o.kind {
			case "creds":
				s.creds = o.creds
			case "unary":
				s.hasUnary = true
				s.interceptors = o.names
				s.unary = o.fn
			}
		}
		r := i.grec()
		r.servers = append(r.servers, s)
		return newHandle(s)
	}
	for _, svc := range []string{"WalletManager", "AccountManager", "Lister", "Signer", "DKG"} {
		svc := svc
		h["github.com/wealdtech/eth2-signer-api/pb/v1.Register"+svc+"Server"] = func(i *interpreter, fr *frame, fn *ssa.Function, args []value) value {
			itf, _ := args[0].(iface)
			if p, ok := itf.v.(*value); ok && p != nil {
				if s, ok := (*p).(nativeHandle).v.(*recServer); ok {
					s.registered = append(s.registered, svc)
					if s.impl == nil {
						s.impl = map[string]iface{}
					}
					if srv, ok := args[1].(iface); ok {
						s.impl[svc] = srv
					}
				}
			}
			return nil
		}
	}
	h["net.Listen"] = func(i *interpreter, fr *frame, fn *ssa.Function, args []value) value {
		if i.fault("net.Listen") {
			return tuple{iface{}, i.mkError("listen: address already in use")}
		}
		r := i.grec()
		r.listens = append(r.listens, goString(args[0], "net.Listen")+"/"+goString(args[1], "net.Listen"))
		return tuple{iface{t: noopType, v: nativeHandle{&recListener{addr: goString(args[1], "net.Listen")}}}, iface{}}
	}
	h["(*google.golang.org/grpc.Server).Serve"] = func(i *interpreter, fr *frame, fn *ssa.Function, args []value) value {
		s := handleOf(args[0]).(*recServer)
		s.served++
		if itf, ok := args[1].(iface); ok {
			if nh, ok := itf.v.(nativeHandle); ok {
				if l, ok := nh.v.(*recListener); ok {
					s.addr = l.addr
				}
			}
		}
		return iface{}
	}
	// ---- github.com/jackc/puddle (the sender's connection pool): one resource per pool, built by the
	// pool's constructor on first use and handed out to every Acquire ----
	const pd = "github.com/jackc/puddle"
	type modelPool struct {
		constructor, destructor value
		res                     value // constructed value (any)
		built                   bool
	}
	h[pd+".NewPool"] = func(i *interpreter, fr *frame, fn *ssa.Function, args []value) value {
		return newHandle(&modelPool{constructor: args[0], destructor: args[1]})
	}
	h["(*"+pd+".Pool).Acquire"] = func(i *interpreter, fr *frame, fn *ssa.Function, args []value) value {
		p := handleOf(args[0]).(*modelPool)
		if !p.built {
			r := call(i, fr, 0, p.constructor, []value{args[1]}).(tuple)
			if e, ok := r[1].(iface); ok && e.t != nil {
				return tuple{(*value)(nil), r[1]}
			}
			p.res, p.built = r[0], true
		}
		return tuple{newHandle(p), iface{}}
	}
	h["(*"+pd+".Resource).Value"] = func(i *interpreter, fr *frame, fn *ssa.Function, args []value) value {
		return handleOf(args[0]).(*modelPool).res
	}
	h["(*"+pd+".Resource).Release"] = func(i *interpreter, fr *frame, fn *ssa.Function, args []value) value { return nil }
	h["(*"+pd+".Resource).Destroy"] = func(i *interpreter, fr *frame, fn *ssa.Function, args []value) value {
		handleOf(args[0]).(*modelPool).built = false
		return nil
	}
	h["(*"+pd+".Pool).Close"] = func(i *interpreter, fr *frame, fn *ssa.Function, args []value) value { return nil }
	// ---- client side: connections are a loop-back to the model's servers ----
	h["google.golang.org/grpc.WithTransportCredentials"] = func(i *interpreter, fr *frame, fn *ssa.Function, args []value) value {
		o := &recOption{kind: "dialcreds"}
		if itf, ok := args[0].(iface); ok {
			if nh, ok := itf.v.(nativeHandle); ok {
				o.creds, _ = nh.v.(*recCreds)
			}
		}
		return opt(o)
	}
	newConn := func(i *interpreter, target value, opts value) value {
		c := &recConn{target: goString(target, "grpc target")}
		if os, ok := opts.([]value); ok {
			for _, a := range os {
				if itf, ok := a.(iface); ok {
					if nh, ok := itf.v.(nativeHandle); ok {
						if o, ok := nh.v.(*recOption); ok && o.kind == "dialcreds" {
							c.creds = o.creds
						}
					}
				}
			}
		}
		return tuple{newHandle(c), iface{}}
	}
	h["google.golang.org/grpc.NewClient"] = func(i *interpreter, fr *frame, fn *ssa.Function, args []value) value {
		return newConn(i, args[0], args[1])
	}
	h["google.golang.org/grpc.Dial"] = h["google.golang.org/grpc.NewClient"]
	h["google.golang.org/grpc.DialContext"] = func(i *interpreter, fr *frame, fn *ssa.Function, args []value) value {
		return newConn(i, args[1], args[2])
	}
	h["(*google.golang.org/grpc.ClientConn).Close"] = func(i *interpreter, fr *frame, fn *ssa.Function, args []value) value { return iface{} }
	h["(*google.golang.org/grpc.ClientConn).Invoke"] = func(i *interpreter, fr *frame, fn *ssa.Function, args []value) value {
		c := handleOf(args[0]).(*recConn)
		return i.clientInvoke(c, goString(args[2], "grpc method"), args[3], args[4])
	}
	h["(*google.golang.org/grpc.Server).GracefulStop"] = func(i *interpreter, fr *frame, fn *ssa.Function, args []value) value { return nil }
	h["(*google.golang.org/grpc.Server).Stop"] = h["(*google.golang.org/grpc.Server).GracefulStop"]
	h["google.golang.org/grpc/grpclog.SetLoggerV2"] = func(i *interpreter, fr *frame, fn *ssa.Function, args []value) value { return nil }
	h["google.golang.org/grpc/status.Error"] = func(i *interpreter, fr *frame, fn *ssa.Function, args []value) value {
		return i.mkError("rpc error: " + goString(args[1], "status.Error"))
	}
	h["math/rand.Int31"] = func(i *interpreter, fr *frame, fn *ssa.Function, args []value) value { return int32(7) }

	// Rec(key): what the recorders saw
	h[vsymPkg+".Rec"] = func(i *interpreter, fr *frame, fn *ssa.Function, args []value) value {
		r := i.grec()
		key := goString(args[0], "Rec key")
		switch key {
		case "servers":
			return fmt.Sprint(len(r.servers))
		case "listens":
			return strings.Join(r.listens, ",")
		}
		if len(r.servers) == 0 {
			return ""
		}
		s := r.servers[len(r.servers)-1]
		switch key {
		case "served":
			return fmt.Sprint(s.served)
		case "registered":
			return strings.Join(s.registered, ",")
		case "interceptors":
			return strings.Join(s.interceptors, ",")
		case "has-creds":
			return fmt.Sprint(s.creds != nil)
		}
		if s.creds == nil {
			return ""
		}
		switch key {
		case "clientauth":
			return fmt.Sprint(s.creds.clientAuth)
		case "minversion":
			return fmt.Sprint(s.creds.minVersion)
		case "certificates":
			return fmt.Sprint(s.creds.certificates)
		case "weakening":
			return strings.Join(s.creds.weakening, ",")
		case "clientcas":
			if s.creds.clientCAs == nil {
				return "nil"
			}
			var parts []string
			for _, p := range s.creds.clientCAs.pems {
				parts = append(parts, hex.EncodeToString(p))
			}
			return strings.Join(parts, ",")
		}
		return ""
	}
}

// isZeroish: the zero value of a field (false, 0, nil function/interface/pointer/slice, all-zero array).
func isZeroish(v value) bool {
	switch x := v.(type) {
	case nil:
		return true
	case bool:
		return !x
	case iface:
		return x.t == nil
	case *value:
		return x == nil
	case *ssa.Function:
		return x == nil
	case *closure:
		return x == nil
	case *nativeFunc:
		return x == nil
	case []value:
		return x == nil
	case array:
		for _, e := range x {
			if !isZeroish(e) {
				return false
			}
		}
		return true
	case structure:
		for _, e := range x {
			if !isZeroish(e) {
				return false
			}
		}
		return true
	case byte:
		return x == 0
	}
	if n, ok := v.(int64); ok {
		return n == 0
	}
	if _, t, ok := intTerm(v); ok && t != nil {
		return t.op == "const" && t.val == 0
	}
	return false
}

func isNilFunc(v value) bool {
	switch f := v.(type) {
	case nil:
		return true
	case *ssa.Function:
		return f == nil
	case *closure:
		return f == nil
	case *nativeFunc:
		return f == nil
	case iface:
		return f.t == nil || f.t == noopType
	}
	return false
}

// invoke delivers a request to the serving gRPC server as the transport would after the TLS
// handshake: through the server's unary interceptor (chain) to the registered service's method.
// fullMethod is "/v1.Signer/Sign"; ctx carries the peer (address, TLS state) and metadata.
func (i *interpreter) invoke(fullMethod string, ctx, req value) value {
	r := i.grec()
	var s *recServer
	// "8881/v1.Signer/Sign" addresses the server on that port; otherwise the first serving server
	if k := strings.Index(fullMethod, "/"); k > 0 {
		port := fullMethod[:k]
		fullMethod = fullMethod[k:]
		for _, x := range r.servers {
			if x.served > 0 && portOf(x.addr) == port {
				s = x
			}
		}
	} else {
		for _, x := range r.servers {
			if x.served > 0 && s == nil {
				s = x
			}
		}
	}
	if s == nil {
		return tuple{iface{}, i.mkError("transport: no server is serving")}
	}
	return i.invokeOn(s, fullMethod, ctx, req)
}

func (i *interpreter) invokeOn(s *recServer, fullMethod string, ctx, req value) value {
	parts := strings.Split(strings.TrimPrefix(fullMethod, "/"), "/")
	if len(parts) != 2 {
		return tuple{iface{}, i.mkError("unimplemented: malformed method name")}
	}
	svc := parts[0]
	if k := strings.LastIndex(svc, "."); k >= 0 {
		svc = svc[k+1:]
	}
	impl, ok := s.impl[svc]
	if !ok || impl.t == nil {
		return tuple{iface{}, i.mkError("unimplemented: unknown service " + parts[0])}
	}
	var mfn *ssa.Function
	ms := i.prog.MethodSets.MethodSet(impl.t)
	for k := 0; k < ms.Len(); k++ {
		if ms.At(k).Obj().Name() == parts[1] {
			mfn = i.prog.MethodValue(ms.At(k))
		}
	}
	if mfn == nil {
		return tuple{iface{}, i.mkError("unimplemented: unknown method " + parts[1])}
	}
	respT := mfn.Signature.Results().At(0).Type()
	reqT := mfn.Signature.Params().At(1).Type()
	handler := &nativeFunc{name: "grpc-method-handler", f: func(i *interpreter, a []value) value {
		rq := a[1]
		if itf, ok := rq.(iface); ok {
			if itf.t == nil || !types.Identical(itf.t, reqT) {
				return tuple{iface{}, i.mkError("grpc: error unmarshalling request: wrong message type")}
			}
			rq = itf.v
		}
		out := call(i, nil, 0, mfn, []value{impl.v, a[0], rq}).(tuple)
		return tuple{iface{t: respT, v: out[0]}, out[1]}
	}}
	cell := value(structure{impl, fullMethod}) // grpc.UnaryServerInfo{Server, FullMethod}
	info := &cell
	if s.unary != nil && !isNilFunc(s.unary) {
		return call(i, nil, 0, s.unary, []value{ctx, req, info, handler})
	}
	return call(i, nil, 0, handler, []value{ctx, req})
}

func goBytesOrNil(v value) []byte {
	if s, ok := v.([]value); ok && s == nil {
		return nil
	}
	return goBytes(v, "bytes")
}

func portOf(addr string) string {
	if k := strings.LastIndex(addr, ":"); k >= 0 {
		return addr[k+1:]
	}
	return addr
}

// clientInvoke: a unary call on a model connection: the request is handed to the model server that
// listens on the target's port, with the context the transport would build there (the peer address
// and the caller's verified certificate), and the reply is copied back.
func (i *interpreter) clientInvoke(c *recConn, method string, req, reply value) value {
	var s *recServer
	for _, x := range i.grec().servers {
		if x.served > 0 && x.addr != "" && portOf(x.addr) == portOf(c.target) {
			s = x
		}
	}
	if s == nil {
		return i.mkError("rpc error: code = Unavailable desc = connection error: no server listens at " + c.target)
	}
	name := ""
	if c.creds != nil {
		name = c.creds.ownName
	}
	ctx := i.transportContext(name, []byte{10, 0, 0, 77})
	res := i.invokeOn(s, method, ctx, req).(tuple)
	if e, ok := res[1].(iface); ok && e.t != nil {
		return res[1]
	}
	// copy the reply message
	out, ok1 := reply.(iface)
	in, ok2 := res[0].(iface)
	if ok1 && ok2 {
		dst, okd := out.v.(*value)
		src, oks := in.v.(*value)
		if okd && oks && dst != nil && src != nil && in.t != nil {
			mt := mustDeref(in.t)
			store(mt, dst, load(mt, src))
		}
	}
	return iface{}
}

// transportContext builds context.Background() + peer.NewContext(peer.Peer{Addr: TCP ip, AuthInfo: TLS state
// with one verified peer certificate of the given common name}).
func (i *interpreter) transportContext(cn string, ip []byte) value {
	typ := func(pkg, name string) types.Type {
		p := i.prog.ImportedPackage(pkg)
		if p == nil || p.Type(name) == nil {
			panic(unsupported{"model transport: " + pkg + "." + name + " is not part of the program"})
		}
		return p.Type(name).Object().Type()
	}
	certT := typ("crypto/x509", "Certificate")
	cert := zero(certT).(structure)
	st := certT.Underlying().(*types.Struct)
	for k := 0; k < st.NumFields(); k++ {
		if st.Field(k).Name() == "Subject" {
			cert[k].(structure)[fieldIndex(st.Field(k).Type(), "CommonName")] = cn
		}
	}
	certCell := value(cert)
	stateT := typ("crypto/tls", "ConnectionState")
	state := zero(stateT).(structure)
	state[fieldIndex(stateT, "HandshakeComplete")] = true
	state[fieldIndex(stateT, "PeerCertificates")] = []value{&certCell}
	state[fieldIndex(stateT, "VerifiedChains")] = []value{value([]value{&certCell})}
	infoT := typ("google.golang.org/grpc/credentials", "TLSInfo")
	info := zero(infoT).(structure)
	info[fieldIndex(infoT, "State")] = state
	addrT := typ("net", "TCPAddr")
	addr := zero(addrT).(structure)
	addr[fieldIndex(addrT, "IP")] = fromBytes(ip)
	addr[fieldIndex(addrT, "Port")] = 40000
	addrCell := value(addr)
	peerT := typ("google.golang.org/grpc/peer", "Peer")
	pr := zero(peerT).(structure)
	pr[fieldIndex(peerT, "Addr")] = iface{t: types.NewPointer(addrT), v: &addrCell}
	pr[fieldIndex(peerT, "AuthInfo")] = iface{t: infoT, v: info}
	prCell := value(pr)
	bg := call(i, nil, 0, i.prog.ImportedPackage("context").Func("Background"), nil)
	return call(i, nil, 0, i.prog.ImportedPackage("google.golang.org/grpc/peer").Func("NewContext"), []value{bg, &prCell})
}
