package symx

// Algebraic model of the herumi BLS API surface used by dirk's distributed key
// generation.  A secret key is a field element; a public key and a signature
// are the images of a secret under fixed group homomorphisms and are
// represented by their discrete logarithm.  Terms are SMT Reals; participant
// identifiers are concrete, so everything is linear in the symbolic
// coefficients.  What is decided with this model are polynomial identities
// that hold in every field of large characteristic; nothing cryptographic.
//
// A Go value of type bls.SecretKey / PublicKey / Sign / ID keeps its shape
// (nested arrays of uint64 limbs); the model stores the number of the element
// it denotes in the first limb, so copies, map entries and struct fields work
// unchanged.  The zero value denotes the zero element.

import (
	"fmt"
	"go/types"
	"math/big"
	"strings"

	"golang.org/x/tools/go/ssa"
)

const blsPkg = "github.com/herumi/bls-eth-go-binary/bls"

type blsElem struct {
	kind byte   // 's' secret, 'p' public key, 'g' signature, 'i' identifier
	term *Term  // Real (s, p, g)
	id   *big.Int // identifier value
	msg  []value  // signed message (g)
}

type blsState struct {
	elems []*blsElem // index = element number (0 reserved for "zero")
	vars  int
}

func (i *interpreter) bls() *blsState {
	if s, ok := i.models["bls"]; ok {
		return s.(*blsState)
	}
	s := &blsState{elems: []*blsElem{nil}}
	i.models["bls"] = s
	return s
}

var realZero = RealConst("0.0")

func realConstBig(n *big.Int) *Term {
	if n.Sign() < 0 {
		return RealConst("(- " + new(big.Int).Neg(n).String() + ".0)")
	}
	return RealConst(n.String() + ".0")
}

func realConstRat(r *big.Rat) *Term {
	if r.IsInt() {
		return realConstBig(r.Num())
	}
	num, den := r.Num(), r.Denom()
	if num.Sign() < 0 {
		return RealConst("(- (/ " + new(big.Int).Neg(num).String() + ".0 " + den.String() + ".0))")
	}
	return RealConst("(/ " + num.String() + ".0 " + den.String() + ".0)")
}

func isRealZero(t *Term) bool { return t == realZero || (t.op == "const" && t.sort == SReal && t.name == "0.0") }

func realAdd(a, b *Term) *Term {
	if isRealZero(a) {
		return b
	}
	if isRealZero(b) {
		return a
	}
	return App("+", SReal, a, b)
}

func realMul(c *Term, a *Term) *Term {
	if isRealZero(a) || isRealZero(c) {
		return realZero
	}
	if c.op == "const" && c.name == "1.0" {
		return a
	}
	return App("*", SReal, c, a)
}

// firstLimb finds the first uint64 leaf of a (nested) BLS value.
func firstLimb(v *value) *value {
	for depth := 0; depth < 8; depth++ {
		switch x := (*v).(type) {
		case structure:
			if len(x) == 0 {
				return nil
			}
			v = &x[0]
		case array:
			if len(x) == 0 {
				return nil
			}
			v = &x[0]
		case uint64:
			return v
		default:
			return nil
		}
	}
	return nil
}

func (i *interpreter) blsGet(p *value, kind byte) *blsElem {
	if p == nil {
		panic(runtimeErrorString("runtime error: invalid memory address or nil pointer dereference"))
	}
	l := firstLimb(p)
	if l == nil {
		panic(unsupported{"bls model: unexpected value shape"})
	}
	n := (*l).(uint64)
	st := i.bls()
	if n == 0 {
		return &blsElem{kind: kind, term: realZero, id: new(big.Int)}
	}
	if n >= uint64(len(st.elems)) {
		panic(unsupported{"bls model: dangling element number"})
	}
	return st.elems[n]
}

func (i *interpreter) blsPut(p *value, e *blsElem) {
	l := firstLimb(p)
	if l == nil {
		panic(unsupported{"bls model: unexpected value shape"})
	}
	st := i.bls()
	st.elems = append(st.elems, e)
	*l = uint64(len(st.elems) - 1)
}

// blsValueElem reads the element out of a value (not pointer) of a BLS type.
func (i *interpreter) blsValueElem(v value, kind byte) *blsElem {
	cell := v
	return i.blsGet(&cell, kind)
}

var blsSizes = map[byte]int{'s': 32, 'p': 48, 'g': 96}

func (i *interpreter) blsSerialize(p *value, kind byte) []value {
	l := firstLimb(p)
	n := (*l).(uint64)
	if n == 0 {
		// serialising the zero element registers it so that it deserialises to zero again
	}
	out := make([]byte, blsSizes[kind])
	out[0], out[1], out[2], out[3] = 0xB1, 0x5E, kind, 0x01
	for k := 0; k < 8; k++ {
		out[4+k] = byte(n >> (8 * k))
	}
	return fromBytes(out)
}

// blsBlob recognises a serialised model element.
func blsBlob(bs []value) (byte, uint64, bool) {
	if len(bs) < 12 {
		return 0, 0, false
	}
	raw := make([]byte, 12)
	for k := 0; k < 12; k++ {
		b, ok := bs[k].(byte)
		if !ok {
			return 0, 0, false
		}
		raw[k] = b
	}
	if raw[0] != 0xB1 || raw[1] != 0x5E || raw[3] != 0x01 {
		return 0, 0, false
	}
	if blsSizes[raw[2]] != len(bs) {
		return 0, 0, false
	}
	var n uint64
	for k := 0; k < 8; k++ {
		n |= uint64(raw[4+k]) << (8 * k)
	}
	return raw[2], n, true
}

func (i *interpreter) blsDeserialize(p *value, kind byte, data value) value {
	bs, _ := data.([]value)
	k, n, ok := blsBlob(bs)
	if !ok || k != kind || n >= uint64(len(i.bls().elems)) {
		return i.mkError(fmt.Sprintf("err bls deserialize (%c) %d bytes", kind, len(bs)))
	}
	l := firstLimb(p)
	*l = n
	return iface{}
}

func addBLSModel(P *Program) {
	h := P.hooks
	m := func(recv, name string) string { return "(*" + blsPkg + "." + recv + ")." + name }
	ptr := func(v value) *value {
		p, ok := v.(*value)
		if !ok || p == nil {
			panic(runtimeErrorString("runtime error: invalid memory address or nil pointer dereference"))
		}
		return p
	}
	h[blsPkg+".Init"] = func(i *interpreter, fr *frame, fn *ssa.Function, args []value) value { return iface{} }
	h[blsPkg+".SetETHmode"] = func(i *interpreter, fr *frame, fn *ssa.Function, args []value) value { return iface{} }
	h["github.com/wealdtech/go-eth2-types/v2.InitBLS"] = func(i *interpreter, fr *frame, fn *ssa.Function, args []value) value { return iface{} }

	// --- secret keys ---
	h[m("SecretKey", "SetByCSPRNG")] = func(i *interpreter, fr *frame, fn *ssa.Function, args []value) value {
		st := i.bls()
		st.vars++
		var t *Term
		if c := i.w.concrete; c != nil {
			name := i.freshName(fmt.Sprintf("blsrnd%d", st.vars))
			t = RealConst(realModelText(c.Model[name]))
		} else {
			t = i.newVar(fmt.Sprintf("blsrnd%d", st.vars), SReal)
		}
		i.blsPut(ptr(args[0]), &blsElem{kind: 's', term: t})
		return nil
	}
	h[m("SecretKey", "GetPublicKey")] = func(i *interpreter, fr *frame, fn *ssa.Function, args []value) value {
		e := i.blsGet(ptr(args[0]), 's')
		out := zero(mustDeref(fn.Signature.Results().At(0).Type()))
		cell := value(out)
		i.blsPut(&cell, &blsElem{kind: 'p', term: e.term})
		return &cell
	}
	setPoly := func(kind byte) hookFn {
		return func(i *interpreter, fr *frame, fn *ssa.Function, args []value) value {
			vec, _ := args[1].([]value)
			if len(vec) == 0 {
				return i.mkError("err bls share: empty vector")
			}
			idp, ok := args[2].(*value)
			if !ok || idp == nil {
				panic(runtimeErrorString("runtime error: invalid memory address or nil pointer dereference"))
			}
			id := i.blsGet(idp, 'i').id
			// Horner evaluation of sum vec[k] * id^k
			acc := realZero
			pow := big.NewInt(1)
			for k := range vec {
				e := i.blsValueElem(vec[k], kind)
				acc = realAdd(acc, realMul(realConstBig(pow), e.term))
				pow = new(big.Int).Mul(pow, id)
			}
			i.blsPut(ptr(args[0]), &blsElem{kind: kind, term: acc})
			return iface{}
		}
	}
	h[m("SecretKey", "Set")] = setPoly('s')
	h[m("PublicKey", "Set")] = setPoly('p')
	addTo := func(kind byte) hookFn {
		return func(i *interpreter, fr *frame, fn *ssa.Function, args []value) value {
			a := i.blsGet(ptr(args[0]), kind)
			b := i.blsGet(ptr(args[1]), kind)
			i.blsPut(ptr(args[0]), &blsElem{kind: kind, term: realAdd(a.term, b.term), msg: a.msg})
			return nil
		}
	}
	h[m("SecretKey", "Add")] = addTo('s')
	h[m("PublicKey", "Add")] = addTo('p')
	isEq := func(kind byte) hookFn {
		return func(i *interpreter, fr *frame, fn *ssa.Function, args []value) value {
			a := i.blsGet(ptr(args[0]), kind)
			b := i.blsGet(ptr(args[1]), kind)
			return mkBool(realEq(a.term, b.term))
		}
	}
	h[m("SecretKey", "IsEqual")] = isEq('s')
	h[m("PublicKey", "IsEqual")] = isEq('p')
	h[m("Sign", "IsEqual")] = isEq('g')
	isZero := func(kind byte) hookFn {
		return func(i *interpreter, fr *frame, fn *ssa.Function, args []value) value {
			a := i.blsGet(ptr(args[0]), kind)
			return mkBool(realEq(a.term, realZero))
		}
	}
	h[m("SecretKey", "IsZero")] = isZero('s')
	h[m("PublicKey", "IsZero")] = isZero('p')
	ser := func(kind byte) hookFn {
		return func(i *interpreter, fr *frame, fn *ssa.Function, args []value) value {
			return i.blsSerialize(ptr(args[0]), kind)
		}
	}
	des := func(kind byte) hookFn {
		return func(i *interpreter, fr *frame, fn *ssa.Function, args []value) value {
			return i.blsDeserialize(ptr(args[0]), kind, args[1])
		}
	}
	h[m("SecretKey", "Serialize")] = ser('s')
	h[m("PublicKey", "Serialize")] = ser('p')
	h[m("Sign", "Serialize")] = ser('g')
	h[m("SecretKey", "Deserialize")] = des('s')
	h[m("PublicKey", "Deserialize")] = des('p')
	h[m("Sign", "Deserialize")] = des('g')
	h[m("SecretKey", "SignByte")] = func(i *interpreter, fr *frame, fn *ssa.Function, args []value) value {
		e := i.blsGet(ptr(args[0]), 's')
		out := zero(mustDeref(fn.Signature.Results().At(0).Type()))
		cell := value(out)
		i.blsPut(&cell, &blsElem{kind: 'g', term: e.term, msg: copyVals(args[1].([]value))})
		return &cell
	}
	h[m("Sign", "VerifyByte")] = func(i *interpreter, fr *frame, fn *ssa.Function, args []value) value {
		sg := i.blsGet(ptr(args[0]), 'g')
		pk := i.blsGet(ptr(args[1]), 'p')
		msg := args[2].([]value)
		if len(msg) != len(sg.msg) {
			return false
		}
		cs := []*Term{realEq(sg.term, pk.term)}
		for k := range msg {
			cs = append(cs, i.symEq(nil, msg[k], sg.msg[k]))
		}
		return mkBool(And(cs...))
	}
	h[m("Sign", "Recover")] = func(i *interpreter, fr *frame, fn *ssa.Function, args []value) value {
		sigs, _ := args[1].([]value)
		ids, _ := args[2].([]value)
		if len(sigs) == 0 || len(sigs) != len(ids) {
			return i.mkError("err blsSignatureRecover: vector sizes")
		}
		idv := make([]*big.Int, len(ids))
		for k := range ids {
			idv[k] = i.blsValueElem(ids[k], 'i').id
			if idv[k].Sign() == 0 {
				return i.mkError("err blsSignatureRecover: zero id")
			}
			for j := 0; j < k; j++ {
				if idv[j].Cmp(idv[k]) == 0 {
					return i.mkError("err blsSignatureRecover: repeated id")
				}
			}
		}
		acc := realZero
		var msg []value
		for j := range sigs {
			e := i.blsValueElem(sigs[j], 'g')
			if j == 0 {
				msg = e.msg
			} else if !sameBytes(msg, e.msg) {
				panic(unsupported{"bls model: recovering from signatures over different messages"})
			}
			// Lagrange coefficient at 0: prod_{m != j} id_m / (id_m - id_j)
			lam := big.NewRat(1, 1)
			for mm := range idv {
				if mm == j {
					continue
				}
				num := new(big.Rat).SetInt(idv[mm])
				den := new(big.Rat).SetInt(new(big.Int).Sub(idv[mm], idv[j]))
				lam.Mul(lam, num.Quo(num, den))
			}
			acc = realAdd(acc, realMul(realConstRat(lam), e.term))
		}
		i.blsPut(ptr(args[0]), &blsElem{kind: 'g', term: acc, msg: msg})
		return iface{}
	}
	// --- identifiers ---
	h[m("ID", "SetLittleEndian")] = func(i *interpreter, fr *frame, fn *ssa.Function, args []value) value {
		buf := goBytes(args[1], "bls.ID.SetLittleEndian")
		n := new(big.Int)
		for k := len(buf) - 1; k >= 0; k-- {
			n.Lsh(n, 8)
			n.Or(n, big.NewInt(int64(buf[k])))
		}
		i.blsPut(ptr(args[0]), &blsElem{kind: 'i', id: n})
		return iface{}
	}
	h[m("ID", "SetDecString")] = func(i *interpreter, fr *frame, fn *ssa.Function, args []value) value {
		n, ok := new(big.Int).SetString(goString(args[1], "bls.ID.SetDecString"), 10)
		if !ok {
			return i.mkError("err blsIdSetDecStr")
		}
		i.blsPut(ptr(args[0]), &blsElem{kind: 'i', id: n})
		return iface{}
	}

	// bytes.Equal on two serialised elements compares what they denote
	prevEq := h["bytes.Equal"]
	h["bytes.Equal"] = func(i *interpreter, fr *frame, fn *ssa.Function, args []value) value {
		a, _ := args[0].([]value)
		b, _ := args[1].([]value)
		ka, na, oka := blsBlob(a)
		kb, nb, okb := blsBlob(b)
		if oka && okb && ka == kb {
			st := i.bls()
			ta, tb := realZero, realZero
			if na != 0 && na < uint64(len(st.elems)) {
				ta = st.elems[na].term
			}
			if nb != 0 && nb < uint64(len(st.elems)) {
				tb = st.elems[nb].term
			}
			return mkBool(realEq(ta, tb))
		}
		return prevEq(i, fr, fn, args)
	}
	h[vsymPkg+".BytesEq"] = h["bytes.Equal"]
	h["crypto/rand.Read"] = func(i *interpreter, fr *frame, fn *ssa.Function, args []value) value {
		buf := args[0].([]value)
		i.randReads++
		for k := range buf {
			buf[k] = i.symInt(fmt.Sprintf("rand%d_%d", i.randReads, k), types.Uint8)
		}
		return tuple{len(buf), iface{}}
	}
}

func sameBytes(a, b []value) bool {
	if len(a) != len(b) {
		return false
	}
	for k := range a {
		if a[k] != b[k] {
			return false
		}
	}
	return true
}

func realEq(a, b *Term) *Term {
	if a == b {
		return TrueT
	}
	if isRealZero(a) && isRealZero(b) {
		return TrueT
	}
	return newTerm("=", SBool, a, b)
}

// realModelText turns a solver model value of a Real into SMT-LIB constant text.
func realModelText(s string) string {
	s = strings.TrimSpace(s)
	if s == "" {
		return "0.0"
	}
	return s
}
