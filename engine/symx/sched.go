package symx

// Logical threads (goroutines of the target) as coroutines: exactly one runs
// at a time, a baton (wake channel) is handed over explicitly, so a run is a
// pure function of its decision sequence.

import (
	"fmt"
	"go/token"
	"go/types"
	"sync"

	"golang.org/x/tools/go/ssa"
)

type thread struct {
	id      int
	wake    chan struct{}
	done    bool
	started bool
	waitFor func() bool
	what    string
	name    string
	harness bool
	crashPending bool
	task    int // harness-level task this thread belongs to (threads started by the code under test inherit it)
}

type sched struct {
	threads      []*thread
	cur          *thread
	aborting     bool
	abortVal     interface{}
	wg           sync.WaitGroup
	explore      bool
	preempts     int
	preemptBound int
	chanCnt      int
	selectFork   bool
	schedTrace   []string
	crashOwner   *thread
	deferSpawn   bool
	forkOrder    bool
	taskCnt      int
	opCount      map[string]int // visible operations seen so far per task and kind (native steering)
	crashBase    int
}

func (i *interpreter) initSched() {
	main := &thread{id: 0, wake: make(chan struct{}, 1), started: true, name: "main"}
	i.threads = []*thread{main}
	i.cur = main
}

func (t *thread) runnable() bool {
	if t.done {
		return false
	}
	if t.waitFor != nil {
		return t.waitFor()
	}
	return true
}

// runnableOthers lists runnable threads other than the current one, by id.
func (i *interpreter) runnableOthers() []*thread {
	var out []*thread
	for _, t := range i.threads {
		if t != i.cur && t.runnable() {
			out = append(out, t)
		}
	}
	return out
}

// switchTo hands the baton to t and parks the current thread until it is woken.
func (i *interpreter) switchTo(t *thread) {
	prev := i.cur
	i.cur = t
	t.wake <- struct{}{}
	<-prev.wake
	if i.aborting {
		panic(abortAll{"run aborted"})
	}
	if prev.crashPending {
		prev.crashPending = false
		panic(processCrash{"(another goroutine of the process died)"})
	}
}

// otherTaskReps returns, for every task other than the current one, its lowest-numbered runnable thread.
func (i *interpreter) otherTaskReps() []*thread {
	var out []*thread
	seen := map[int]bool{}
	for _, t := range i.threads {
		if t == i.cur || t.task == i.cur.task || seen[t.task] || !t.runnable() {
			continue
		}
		seen[t.task] = true
		out = append(out, t)
	}
	return out
}

// pickNext chooses the thread to run when the current one cannot continue.  Threads of one
// task (one request) run sequentially: while any of them is runnable the task keeps the
// processor; scheduling choices exist only between tasks.
func (i *interpreter) pickNext() *thread {
	var same []*thread
	for _, t := range i.threads {
		if t != i.cur && t.task == i.cur.task && t.runnable() {
			same = append(same, t)
		}
	}
	if len(same) > 0 {
		if i.forkOrder && len(same) > 1 {
			// every order in which the goroutines of one request may be run
			k := i.decide("goroutine-order", len(same), func(int) *Term { return nil })
			i.trace = append(i.trace, fmt.Sprintf("order:T%d", same[k].id))
			return same[k]
		}
		return same[0]
	}
	cands := i.otherTaskReps()
	if len(cands) == 0 {
		return nil
	}
	if i.explore && len(cands) > 1 {
		k := i.decide("sched-free", len(cands), func(int) *Term { return nil })
		i.schedTrace = append(i.schedTrace, fmt.Sprintf("T%d", cands[k].id))
		return cands[k]
	}
	return cands[0]
}

// block parks the current thread until cond holds.
func (i *interpreter) block(cond func() bool, what string) {
	for !cond() {
		t := i.cur
		t.waitFor = cond
		t.what = what
		next := i.pickNext()
		if next == nil && i.passTime() {
			// every goroutine waits and a timer is pending: time passes
			t.waitFor = nil
			continue
		}
		if next == nil {
			t.waitFor = nil
			panic(crashed{"deadlock: no goroutine can make progress: " + i.describeThreads()})
		}
		i.switchTo(next)
		t.waitFor = nil
	}
}

func (i *interpreter) describeThreads() string {
	s := ""
	for _, t := range i.threads {
		if t.done {
			continue
		}
		st := "runnable"
		if t.waitFor != nil && !t.waitFor() {
			st = "blocked on " + t.what
		}
		s += fmt.Sprintf("[T%d %s: %s] ", t.id, t.name, st)
	}
	return s
}

// yield is a scheduling point before a visible operation (explore mode only): the
// current task may be pre-empted in favour of another task, within the pre-emption bound.
func (i *interpreter) yield(what string) {
	n := 0
	if i.explore && i.cur.task > 0 {
		if i.opCount == nil {
			i.opCount = map[string]int{}
		}
		key := fmt.Sprintf("%d|%s", i.cur.task, what)
		n = i.opCount[key]
		i.opCount[key] = n + 1
	}
	if !i.explore || i.preempts >= i.preemptBound {
		return
	}
	cands := i.otherTaskReps()
	if len(cands) == 0 {
		return
	}
	k := i.decide("sched", len(cands)+1, func(int) *Term { return nil })
	if k == 0 {
		return
	}
	i.preempts++
	i.w.stats.Preemptions++
	i.schedTrace = append(i.schedTrace, fmt.Sprintf("preempt@%s->T%d", what, cands[k-1].id))
	i.trace = append(i.trace, fmt.Sprintf("preempt@%s:T%d->T%d", what, i.cur.id, cands[k-1].id))
	// for native steering: the n-th operation of this kind in this task is where the task is held back
	i.trace = append(i.trace, fmt.Sprintf("steer:%d:%d:%s", i.cur.task, n, what))
	i.switchTo(cands[k-1])
}

// abort ends the run from a non-main thread.
func (i *interpreter) abort(p interface{}) {
	i.abortVal = p
	i.aborting = true
	main := i.threads[0]
	select {
	case main.wake <- struct{}{}:
	default:
	}
}

// spawn implements the go statement.
func (i *interpreter) spawn(instr *ssa.Go, fn value, args []value) {
	i.spawnThread(instr.Pos(), fn, args, false)
}

func (i *interpreter) spawnThread(pos token.Pos, fn value, args []value, harness bool) {
	name := "goroutine"
	switch f := fn.(type) {
	case *ssa.Function:
		name = f.String()
	case *closure:
		name = f.Fn.String()
	case *nativeFunc:
		name = f.name
	}
	if i.P.parkForever[name] {
		return // e.g. `go func(){ <-ctx.Done(); ... }()` with a context that is never cancelled
	}
	t := &thread{id: len(i.threads), wake: make(chan struct{}, 1), name: name, harness: harness, task: i.cur.task}
	if harness {
		i.taskCnt++
		t.task = i.taskCnt
	}
	i.threads = append(i.threads, t)
	i.wg.Add(1)
	go func() {
		defer i.wg.Done()
		<-t.wake
		t.started = true
		if harness && i.explore {
			i.trace = append(i.trace, fmt.Sprintf("start:%d", t.task))
		}
		defer func() {
			p := recover()
			t.done = true
			if i.aborting {
				return
			}
			if pc, ok := p.(processCrash); ok && i.crashOwner != nil {
				// the simulated process dies: every thread it started is gone, the
				// thread that waits in vsym.UntilCrash takes over
				_ = pc
				owner := i.crashOwner
				i.killProcessThreads()
				owner.crashPending = true
				owner.waitFor = nil
				i.cur = owner
				owner.wake <- struct{}{}
				return
			}
			if p != nil {
				if !isControl(p) {
					p = crashed{"panic in goroutine " + name + ": " + panicString(p)}
				}
				i.abort(p)
				return
			}
			next := i.pickNext()
			if next == nil {
				if !i.threads[0].done {
					i.abort(crashed{"deadlock: no goroutine can make progress: " + i.describeThreads()})
				}
				return
			}
			i.cur = next
			next.wake <- struct{}{}
		}()
		if i.aborting {
			return
		}
		call(i, nil, pos, fn, args)
	}()
	if harness {
		return // harness threads start when the harness joins them
	}
	if i.deferSpawn {
		return // the new goroutine runs only once its creator blocks or ends
	}
	i.switchTo(t)
}

// killProcessThreads marks every thread started since UntilCrash began as dead.
func (i *interpreter) killProcessThreads() {
	// the dead process's file locks are gone with it
	if l, ok := i.models["badgerlog"]; ok {
		l.(*badgerLog).locks = nil
	}
	for _, t := range i.threads {
		if t.id >= i.crashBase && t != i.crashOwner {
			t.done = true
		}
	}
}

// endRun unwinds every parked thread; called by the driver after the main thread finished.
func (i *interpreter) endRun() {
	i.aborting = true
	for _, t := range i.threads[1:] {
		// every goroutine that has not exited yet is parked on its wake channel
		// (also those of a "dead" simulated process): wake them so that they unwind
		select {
		case t.wake <- struct{}{}:
		default:
		}
	}
	i.wg.Wait()
}

func panicString(p interface{}) string {
	switch p := p.(type) {
	case targetPanic:
		return toString(p.v)
	case error:
		return p.Error()
	case string:
		return p
	}
	return fmt.Sprintf("%v", p)
}

// ---- channels ----

type sendItem struct {
	v     value
	taken bool
}

type channel struct {
	id     int
	buf    []value
	cap    int
	closed bool
	sendq  []*sendItem
}

func (i *interpreter) makeChan(n int) *channel {
	i.chanCnt++
	return &channel{id: i.chanCnt, cap: n}
}

func (c *channel) length() int {
	if c == nil {
		return 0
	}
	return len(c.buf)
}
func (c *channel) capacity() int {
	if c == nil {
		return 0
	}
	return c.cap
}

func (c *channel) canRecv() bool {
	return len(c.buf) > 0 || len(c.sendq) > 0 || c.closed
}

func (c *channel) canSend() bool {
	return c.closed || (c.cap > 0 && len(c.buf) < c.cap)
}

func (i *interpreter) chanSend(c *channel, v value) {
	if c == nil {
		i.block(func() bool { return false }, "send on nil channel")
	}
	i.yield("chan send")
	if c.closed {
		panic(runtimeErrorString("send on closed channel"))
	}
	if c.cap > 0 {
		i.block(func() bool { return c.closed || len(c.buf) < c.cap }, "chan send")
		if c.closed {
			panic(runtimeErrorString("send on closed channel"))
		}
		c.buf = append(c.buf, v)
		return
	}
	it := &sendItem{v: v}
	c.sendq = append(c.sendq, it)
	i.block(func() bool { return it.taken || c.closed }, "chan send (unbuffered)")
	if !it.taken {
		panic(runtimeErrorString("send on closed channel"))
	}
}

func (i *interpreter) chanRecv(c *channel) (value, bool) {
	if c == nil {
		i.block(func() bool { return false }, "receive on nil channel")
	}
	i.yield("chan recv")
	i.block(c.canRecv, "chan receive")
	return c.take()
}

func (c *channel) take() (value, bool) {
	if len(c.buf) > 0 {
		v := c.buf[0]
		c.buf = c.buf[1:]
		return v, true
	}
	if len(c.sendq) > 0 {
		it := c.sendq[0]
		c.sendq = c.sendq[1:]
		it.taken = true
		return it.v, true
	}
	return nil, false // closed
}

func (i *interpreter) chanClose(c *channel) {
	if c == nil {
		panic(runtimeErrorString("close of nil channel"))
	}
	if c.closed {
		panic(runtimeErrorString("close of closed channel"))
	}
	c.closed = true
}

func (i *interpreter) doSelect(fr *frame, instr *ssa.Select) value {
	type cs struct {
		ch   *channel
		send bool
		v    value
	}
	var cases []cs
	for _, st := range instr.States {
		c := cs{ch: fr.get(st.Chan).(*channel), send: st.Dir == types.SendOnly}
		if c.send {
			c.v = fr.get(st.Send)
		}
		cases = append(cases, c)
	}
	ready := func() []int {
		var r []int
		for k, c := range cases {
			if c.ch == nil {
				continue
			}
			if c.send && c.ch.canSend() {
				r = append(r, k)
			} else if !c.send && c.ch.canRecv() {
				r = append(r, k)
			}
		}
		return r
	}
	i.yield("select")
	chosen := -1
	r := ready()
	if len(r) == 0 && instr.Blocking {
		i.block(func() bool { return len(ready()) > 0 }, "select")
		r = ready()
	}
	if len(r) > 0 {
		chosen = r[0]
		if i.selectFork && len(r) > 1 {
			chosen = r[i.decide("select", len(r), func(int) *Term { return nil })]
		}
	}
	recvOk := false
	var recv value
	if chosen >= 0 {
		c := cases[chosen]
		if c.send {
			if c.ch.closed {
				panic(runtimeErrorString("send on closed channel"))
			}
			c.ch.buf = append(c.ch.buf, c.v)
		} else {
			recv, recvOk = c.ch.take()
		}
	}
	res := tuple{chosen, recvOk}
	for k, st := range instr.States {
		if st.Dir == types.RecvOnly {
			var v value
			if k == chosen && recvOk {
				v = recv
			} else {
				v = zero(st.Chan.Type().Underlying().(*types.Chan).Elem())
			}
			res = append(res, v)
		}
	}
	return res
}

// ---- sync primitives (state lives in a per-run side table keyed by address) ----

type mutexState struct {
	locked  bool
	readers int
	owner   int
}

func (i *interpreter) mutexOf(p *value) *mutexState {
	if m, ok := i.side[p]; ok {
		return m.(*mutexState)
	}
	m := &mutexState{}
	i.side[p] = m
	return m
}

func (i *interpreter) mutexLock(p *value, what string) {
	if p == nil {
		panic(runtimeErrorString("runtime error: invalid memory address or nil pointer dereference"))
	}
	m := i.mutexOf(p)
	i.yield(what)
	i.block(func() bool { return !m.locked && m.readers == 0 }, what)
	m.locked = true
	m.owner = i.cur.id
}

func (i *interpreter) mutexUnlock(p *value) {
	m := i.mutexOf(p)
	if !m.locked {
		panic(crashed{"fatal error: sync: unlock of unlocked mutex"})
	}
	m.locked = false
}

func (i *interpreter) mutexTryLock(p *value) bool {
	m := i.mutexOf(p)
	if m.locked || m.readers > 0 {
		return false
	}
	m.locked = true
	return true
}

func (i *interpreter) mutexRLock(p *value) {
	m := i.mutexOf(p)
	i.yield("RWMutex.RLock")
	i.block(func() bool { return !m.locked }, "RWMutex.RLock")
	m.readers++
}

func (i *interpreter) mutexRUnlock(p *value) {
	m := i.mutexOf(p)
	if m.readers <= 0 {
		panic(crashed{"fatal error: sync: RUnlock of unlocked RWMutex"})
	}
	m.readers--
}

type wgState struct{ n int }
type onceState struct{ done, running bool }
