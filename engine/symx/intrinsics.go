package symx

// The vsym intrinsics: how harnesses obtain symbolic inputs and state claims.

import (
	"fmt"
	"go/types"

	"golang.org/x/tools/go/ssa"
)

const vsymPkg = "github.com/attestantio/dirk/zzverif/vsym"

type intrinsicState struct {
	reached      map[string]int
	forbidCrash  bool
	gomaxprocs   value
	clock        func(i *interpreter) value
	clockReads   int
	clockBase    int64
	timers       []*modelTimer
	faults       map[string]int
	faultsOn     bool
	faultBudget  int
	faultedSites map[string]bool
	faultsUsed   int
	faultFilter  func(site string) bool
	crashOn      bool
	crashBudget  int
	crashesUsed  int
	midFlush     bool
	crashCalls   map[string]int
}

func boolArgs(v value) []*Term {
	var ts []*Term
	for _, e := range v.([]value) {
		t, ok := boolTerm(e)
		if !ok {
			panic(fmt.Sprintf("vsym: expected bool, got %T", e))
		}
		ts = append(ts, t)
	}
	return ts
}

func addIntrinsics(P *Program) {
	h := P.hooks
	reg := func(name string, f hookFn) { h[vsymPkg+"."+name] = f }

	intOf := func(k types.BasicKind) hookFn {
		return func(i *interpreter, fr *frame, fn *ssa.Function, args []value) value {
			return i.symInt(goString(args[0], "vsym name"), k)
		}
	}
	reg("Uint64", intOf(types.Uint64))
	reg("Int64", intOf(types.Int64))
	reg("Uint32", intOf(types.Uint32))
	reg("Int32", intOf(types.Int32))
	reg("Int", intOf(types.Int))
	reg("Byte", intOf(types.Uint8))
	reg("IntRange", func(i *interpreter, fr *frame, fn *ssa.Function, args []value) value {
		name := goString(args[0], "vsym name")
		lo, hi := asInt64(args[1]), asInt64(args[2])
		if c := i.w.concrete; c != nil {
			bits, _ := ParseBV(c.Model[i.freshName(name)])
			return int(bits)
		}
		v := i.newVar(name, SInt)
		i.assume(And(App("<=", SBool, IntConst(lo), v), App("<=", SBool, v, IntConst(hi))))
		return symv{types.Int, v}
	})
	reg("Bool", func(i *interpreter, fr *frame, fn *ssa.Function, args []value) value {
		return i.symBool(goString(args[0], "vsym name"))
	})
	reg("Bytes", func(i *interpreter, fr *frame, fn *ssa.Function, args []value) value {
		name := goString(args[0], "vsym name")
		n := int(i.concreteInt64(args[1], "Bytes length"))
		out := make([]value, n)
		for k := range out {
			out[k] = i.symInt(fmt.Sprintf("%s_%d", name, k), types.Uint8)
		}
		return out
	})
	reg("Choose", func(i *interpreter, fr *frame, fn *ssa.Function, args []value) value {
		name := goString(args[0], "vsym name")
		n := int(i.concreteInt64(args[1], "Choose arity"))
		if n <= 0 {
			panic(pathEnd{"Choose(0)"})
		}
		cnt := i.chooseCnt[name]
		i.chooseCnt[name] = cnt + 1
		key := name
		if cnt > 0 {
			key = fmt.Sprintf("%s#%d", name, cnt)
		}
		if cc := i.w.concrete; cc != nil {
			c := cc.Chooses[key]
			if c < 0 || c >= n {
				c = 0
			}
			return c
		}
		c := i.decide("choose:"+name, n, func(int) *Term { return nil })
		i.chooses[key] = c
		i.trace = append(i.trace, fmt.Sprintf("%s=%d", key, c))
		return c
	})
	reg("Assume", func(i *interpreter, fr *frame, fn *ssa.Function, args []value) value {
		t, _ := boolTerm(args[0])
		i.assume(t)
		return nil
	})
	reg("Assert", func(i *interpreter, fr *frame, fn *ssa.Function, args []value) value {
		t, _ := boolTerm(args[1])
		i.assertHolds(goString(args[0], "assert id"), t)
		return nil
	})
	reg("Reach", func(i *interpreter, fr *frame, fn *ssa.Function, args []value) value {
		if i.reached == nil {
			i.reached = map[string]int{}
		}
		i.reached[goString(args[0], "reach id")]++
		return nil
	})
	reg("And", func(i *interpreter, fr *frame, fn *ssa.Function, args []value) value {
		return mkBool(And(boolArgs(args[0])...))
	})
	reg("Or", func(i *interpreter, fr *frame, fn *ssa.Function, args []value) value {
		return mkBool(Or(boolArgs(args[0])...))
	})
	reg("Not", func(i *interpreter, fr *frame, fn *ssa.Function, args []value) value {
		t, _ := boolTerm(args[0])
		return mkBool(Not(t))
	})
	reg("Implies", func(i *interpreter, fr *frame, fn *ssa.Function, args []value) value {
		a, _ := boolTerm(args[0])
		b, _ := boolTerm(args[1])
		return mkBool(Implies(a, b))
	})
	reg("IteU64", func(i *interpreter, fr *frame, fn *ssa.Function, args []value) value {
		c, _ := boolTerm(args[0])
		_, a, _ := intTerm(args[1])
		_, b, _ := intTerm(args[2])
		return mkInt(types.Uint64, Ite(c, a, b))
	})
	reg("IteI64", func(i *interpreter, fr *frame, fn *ssa.Function, args []value) value {
		c, _ := boolTerm(args[0])
		_, a, _ := intTerm(args[1])
		_, b, _ := intTerm(args[2])
		return mkInt(types.Int64, Ite(c, a, b))
	})
	reg("BytesEq", func(i *interpreter, fr *frame, fn *ssa.Function, args []value) value {
		return h["bytes.Equal"](i, fr, fn, args)
	})
	reg("Out", func(i *interpreter, fr *frame, fn *ssa.Function, args []value) value {
		v := args[1]
		if itf, ok := v.(iface); ok {
			v = itf.v
		}
		i.outs = append(i.outs, goString(args[0], "Out name")+"="+toString(v))
		return nil
	})
	reg("FindingClass", func(i *interpreter, fr *frame, fn *ssa.Function, args []value) value {
		t, _ := boolTerm(args[1])
		name := goString(args[0], "class name")
		if old, ok := i.classes[name]; ok {
			t = Or(old, t)
		}
		i.classes[name] = t
		return nil
	})
	reg("TempDir", func(i *interpreter, fr *frame, fn *ssa.Function, args []value) value {
		return "/vsym-db/" + goString(args[0], "TempDir name")
	})
	reg("ForbidCrash", func(i *interpreter, fr *frame, fn *ssa.Function, args []value) value {
		i.forbidCrash = true
		return nil
	})
	reg("SetGOMAXPROCS", func(i *interpreter, fr *frame, fn *ssa.Function, args []value) value {
		i.gomaxprocs = args[0]
		return nil
	})
	// UntilCrash runs f as "the process"; if a crash point fires inside, every thread the
	// process started is gone and UntilCrash returns true.
	reg("UntilCrash", func(i *interpreter, fr *frame, fn *ssa.Function, args []value) (res value) {
		savedOwner, savedBase := i.crashOwner, i.crashBase
		i.crashOwner, i.crashBase = i.cur, len(i.threads)
		defer func() {
			p := recover()
			if p != nil {
				if _, ok := p.(processCrash); ok {
					// crash in this very thread, or handed over by a dying child thread
					i.killProcessThreads()
					i.cur.waitFor = nil
					i.crashOwner, i.crashBase = savedOwner, savedBase
					res = true
					return
				}
				i.crashOwner, i.crashBase = savedOwner, savedBase
				panic(p)
			}
			i.crashOwner, i.crashBase = savedOwner, savedBase
		}()
		call(i, fr, 0, args[0], nil)
		return false
	})
	reg("CrashPoint", func(i *interpreter, fr *frame, fn *ssa.Function, args []value) value {
		i.crashPoint(goString(args[0], "crash site"))
		return nil
	})
	reg("SetCrashes", func(i *interpreter, fr *frame, fn *ssa.Function, args []value) value {
		i.crashBudget = i.crashesUsed + int(asInt64(args[0]))
		i.crashOn = asInt64(args[0]) > 0
		return nil
	})
	reg("Invoke", func(i *interpreter, fr *frame, fn *ssa.Function, args []value) value {
		return i.invoke(goString(args[0], "vsym.Invoke"), args[1], args[2])
	})
	reg("ModelOpensKeepLockGuard", func(i *interpreter, fr *frame, fn *ssa.Function, args []value) value {
		for _, b := range i.blog().bypass {
			if b {
				return false
			}
		}
		return true
	})
	reg("ModelAllOpensSynced", func(i *interpreter, fr *frame, fn *ssa.Function, args []value) value {
		l := i.blog()
		if len(l.opens) == 0 {
			return false
		}
		for _, s := range l.opens {
			if !s {
				return false
			}
		}
		return true
	})
	reg("AdvanceClock", func(i *interpreter, fr *frame, fn *ssa.Function, args []value) value {
		i.clockBase += asInt64(args[0])
		i.fireTimers()
		return nil
	})
	// Settle: background goroutines get to run until none of them can make progress any more
	reg("Settle", func(i *interpreter, fr *frame, fn *ssa.Function, args []value) value {
		me := i.cur
		i.block(func() bool {
			for _, t := range i.threads {
				if t != me && !t.done && !t.harness && t.id != 0 && t.runnable() {
					return false
				}
			}
			return true
		}, "vsym.Settle")
		return nil
	})
	reg("Symbolic", func(i *interpreter, fr *frame, fn *ssa.Function, args []value) value { return true })
	// Try runs f and reports whether it panicked (target panics only).
	reg("Try", func(i *interpreter, fr *frame, fn *ssa.Function, args []value) (res value) {
		defer func() {
			if p := recover(); p != nil {
				if isControl(p) {
					panic(p)
				}
				res = tuple{true, panicString(p)}
			}
		}()
		call(i, fr, 0, args[0], nil)
		return tuple{false, ""}
	})
	reg("Explore", func(i *interpreter, fr *frame, fn *ssa.Function, args []value) value {
		i.explore = true
		i.preemptBound = int(asInt64(args[0]))
		return nil
	})
	reg("Sequential", func(i *interpreter, fr *frame, fn *ssa.Function, args []value) value {
		i.explore = false
		return nil
	})
	reg("DeferGoroutines", func(i *interpreter, fr *frame, fn *ssa.Function, args []value) value {
		i.deferSpawn = args[0].(bool)
		return nil
	})
	reg("ForkGoroutineOrder", func(i *interpreter, fr *frame, fn *ssa.Function, args []value) value {
		i.forkOrder = args[0].(bool)
		return nil
	})
	reg("SelectFork", func(i *interpreter, fr *frame, fn *ssa.Function, args []value) value {
		i.selectFork = args[0].(bool)
		return nil
	})
	// Spawn runs f as a new logical thread; Join waits for all spawned threads.
	reg("Spawn", func(i *interpreter, fr *frame, fn *ssa.Function, args []value) value {
		i.spawnThread(0, args[0], nil, true)
		return nil
	})
	reg("Join", func(i *interpreter, fr *frame, fn *ssa.Function, args []value) value {
		me := i.cur
		i.block(func() bool {
			for _, t := range i.threads {
				if t != me && t.id != 0 && !t.done && t.harness {
					return false
				}
			}
			return true
		}, "vsym.Join")
		return nil
	})
	// Fault(site) is a symbolic environment failure at a named site.
	reg("Fault", func(i *interpreter, fr *frame, fn *ssa.Function, args []value) value {
		return i.fault(goString(args[0], "fault site"))
	})
	reg("SetFaults", func(i *interpreter, fr *frame, fn *ssa.Function, args []value) value {
		i.faultBudget = i.faultsUsed + int(asInt64(args[0]))
		i.faultsOn = asInt64(args[0]) > 0
		return nil
	})
}

// fault decides whether the environment fails at site (a fork, bounded by the fault budget).
// Occurrences of a site are numbered (site, site#1, ...), whether or not they fail,
// so that the native twin can inject exactly the same ones.
func (i *interpreter) fault(site string) bool {
	if i.faults == nil {
		i.faults = map[string]int{}
	}
	n := i.faults[site]
	i.faults[site] = n + 1
	key := site
	if n > 0 {
		key = fmt.Sprintf("%s#%d", site, n)
	}
	if cc := i.w.concrete; cc != nil {
		for _, f := range cc.Faults {
			if f == key {
				return true
			}
		}
		return false
	}
	// a site that has failed once may keep failing (a persistent fault: full disk, closed peer)
	// without using up more of the budget: the budget counts failing sites, not occurrences
	again := i.faultedSites[site]
	if !i.faultsOn || (!again && i.faultsUsed >= i.faultBudget) {
		return false
	}
	if i.faultFilter != nil && !i.faultFilter(site) {
		return false
	}
	k := i.decide("fault:"+site, 2, func(int) *Term { return nil })
	if k == 1 {
		if !again {
			i.faultsUsed++
			if i.faultedSites == nil {
				i.faultedSites = map[string]bool{}
			}
			i.faultedSites[site] = true
		}
		i.trace = append(i.trace, "fault@"+key)
		return true
	}
	return false
}
