package symx

// Model of encoding/gob for dirk's legacy slashing-protection records: the
// decoder either fails (bytes it does not know) or fills the target struct
// with the values registered for the record's marker bytes.  What is decided
// is that dirk delegates the whole legacy record to gob and honours what gob
// returns; gob's own decoding is outside every claim.

import (
	"fmt"
	"go/types"

	"golang.org/x/tools/go/ssa"
)

type gobRecord struct {
	fields []value // in struct field order
}

func addGobModel(P *Program) {
	h := P.hooks
	h["encoding/gob.NewDecoder"] = func(i *interpreter, fr *frame, fn *ssa.Function, args []value) value {
		return newHandle(args[0])
	}
	h["(*encoding/gob.Decoder).Decode"] = func(i *interpreter, fr *frame, fn *ssa.Function, args []value) value {
		rd := handleOf(args[0]).(value)
		itf, ok := rd.(iface)
		if !ok || itf.t == nil {
			return i.mkError("gob: nil reader")
		}
		// only *bytes.Buffer readers are modelled
		bp, ok := itf.v.(*value)
		if !ok || bp == nil {
			panic(unsupported{"gob model: reader is not *bytes.Buffer"})
		}
		st, ok := (*bp).(structure)
		if !ok || len(st) == 0 {
			panic(unsupported{"gob model: unexpected reader shape"})
		}
		buf, _ := st[0].([]value)
		if i.fault("gob.Decode") {
			return i.mkError("injected: gob decode failed")
		}
		if len(buf) < 2 {
			return i.mkError("gob: unexpected EOF")
		}
		m0, ok0 := buf[0].(byte)
		m1, ok1 := buf[1].(byte)
		if !ok0 || !ok1 || m0 != 0x7f {
			return i.mkError("gob: unknown type id or corrupted data")
		}
		rec, ok := i.models[fmt.Sprintf("gob:%d", m1)].(*gobRecord)
		if !ok {
			return i.mkError("gob: unknown type id or corrupted data")
		}
		target, ok := args[1].(iface)
		if !ok || target.t == nil {
			return i.mkError("gob: attempt to decode into a non-pointer")
		}
		tp, ok := target.v.(*value)
		if !ok || tp == nil {
			return i.mkError("gob: attempt to decode into a nil pointer")
		}
		dst, ok := (*tp).(structure)
		if !ok {
			panic(unsupported{"gob model: target is not a struct"})
		}
		if len(dst) != len(rec.fields) {
			return i.mkError("gob: type mismatch")
		}
		// gob does not transmit zero-valued fields: the corresponding fields of the target keep
		// whatever they held before Decode
		for k := range dst {
			v := rec.fields[k]
			if sv, ok := v.(symv); ok {
				if i.branch(Eq(sv.t, BVConst(sv.t.sort, 0))) {
					continue
				}
			} else if _, bits, ok := intKind(v); ok && bits == 0 {
				continue
			}
			dst[k] = v
		}
		return iface{}
	}
	reg := func(name string, f hookFn) { h[vsymPkg+"."+name] = f }
	// LegacyRecord(tag, nfields) returns marker bytes standing for a gob-encoded
	// legacy record together with its (symbolic) int64 field values.
	reg("LegacyRecord", func(i *interpreter, fr *frame, fn *ssa.Function, args []value) value {
		tag := goString(args[0], "LegacyRecord tag")
		n := int(asInt64(args[1]))
		id := 0
		for {
			if _, ok := i.models[fmt.Sprintf("gob:%d", id)]; !ok {
				break
			}
			id++
		}
		rec := &gobRecord{}
		vals := make([]value, n)
		for k := 0; k < n; k++ {
			v := i.symInt(fmt.Sprintf("legacy%s_%d", tag, k), types.Int64)
			rec.fields = append(rec.fields, v)
			vals[k] = v
		}
		i.models[fmt.Sprintf("gob:%d", id)] = rec
		return tuple{[]value{byte(0x7f), byte(id), byte(0), byte(0)}, vals}
	})
}
