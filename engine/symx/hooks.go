package symx

// Interception of calls at environment boundaries: native models, no-op
// packages, lazy package initialisation.

import (
	"bytes"
	"encoding/hex"
	"fmt"
	"go/types"
	"net"
	"path/filepath"
	"regexp"
	"strconv"
	"strings"

	"golang.org/x/tools/go/ssa"
)

type hookFn func(i *interpreter, fr *frame, fn *ssa.Function, args []value) value

// noopType is the dynamic type of interface values returned by no-op packages.
var noopType types.Type = types.NewNamed(types.NewTypeName(0, nil, "verif.noop", nil), types.NewStruct(nil, nil), nil)

type noopMethod struct{ m *types.Func }

var noopPrefixes = []string{
	"github.com/rs/zerolog",
	"github.com/opentracing/opentracing-go",
	"go.opentelemetry.io/otel",
	"github.com/prometheus/client_golang",
	"github.com/attestantio/dirk/util/loggers",
	"github.com/uber/jaeger",
	"go.opentelemetry.io/contrib",
}

func isNoopPkg(path string) bool {
	for _, p := range noopPrefixes {
		if path == p || strings.HasPrefix(path, p+"/") {
			return true
		}
	}
	return false
}

// modelled packages are never initialised nor interpreted: every reachable function needs a hook.
var modelledPrefixes = []string{
	"github.com/dgraph-io/badger/v2",
	"github.com/herumi/bls-eth-go-binary",
	"github.com/ferranbt/fastssz",
	"github.com/spf13/viper",
	"github.com/jackc/puddle",
	"google.golang.org/grpc/grpclog",
	"google.golang.org/grpc/internal",
	"reflect",
	"unsafe",
	"encoding/gob",
	"encoding/json",
	"github.com/wealdtech/go-eth2-wallet-distributed",
	"github.com/wealdtech/go-eth2-wallet-nd",
	"github.com/wealdtech/go-eth2-wallet-hd",
	"github.com/wealdtech/go-eth2-wallet-keystore",
	"github.com/wealdtech/go-eth2-wallet-encryptor-keystorev4",
	"github.com/wealdtech/go-eth2-wallet-store-scratch",
	"crypto/tls",
	"crypto/x509",
	"os",
	"net",
	"syscall",
}

var modelledExact = map[string]bool{"google.golang.org/grpc": true}

func isModelledPkg(path string) bool {
	if modelledExact[path] {
		return true
	}
	for _, p := range modelledPrefixes {
		if path == p || strings.HasPrefix(path, p+"/") {
			return true
		}
	}
	return false
}

// wantInit: which packages get their (own, non-transitive) initialiser run lazily.
// packages whose functions are interpreted but whose initialisers are skipped
// (they only register reflection metadata)
var noInitPrefixes = []string{
	"github.com/wealdtech/eth2-signer-api",
	"google.golang.org/protobuf",
	"google.golang.org/genproto",
	"github.com/golang/protobuf",
}

func (P *Program) wantInit(path string) bool {
	if P.initAllow[path] {
		return true
	}
	for _, p := range noInitPrefixes {
		if path == p || strings.HasPrefix(path, p+"/") {
			return false
		}
	}
	if isStdlib(path) || isNoopPkg(path) || isModelledPkg(path) {
		return false
	}
	return true
}

func fnPkgPath(fn *ssa.Function) string {
	if fn.Pkg != nil {
		return fn.Pkg.Pkg.Path()
	}
	// methods of instantiated generics / wrappers: use the object's package
	if o := fn.Object(); o != nil && o.Pkg() != nil {
		return o.Pkg().Path()
	}
	if fn.Parent() != nil {
		return fnPkgPath(fn.Parent())
	}
	if org := fn.Origin(); org != nil && org != fn {
		return fnPkgPath(org)
	}
	if recv := fn.Signature.Recv(); recv != nil {
		t := recv.Type()
		if p, ok := t.(*types.Pointer); ok {
			t = p.Elem()
		}
		if n, ok := t.(*types.Named); ok && n.Obj().Pkg() != nil {
			return n.Obj().Pkg().Path()
		}
	}
	return ""
}

// intercept is consulted before a function body is interpreted.
func (i *interpreter) intercept(fr *frame, caller *frame, fn *ssa.Function, args []value) (value, bool) {
	if fn.Synthetic == "package initializer" {
		if i.allowInit != fn {
			return nil, true // lazy, non-transitive initialisation
		}
		return nil, false
	}
	name := fn.String()
	i.w.noteFunc(fn, name)
	if h := i.P.hooks[name]; h != nil {
		return h(i, fr, fn, args), true
	}
	if strings.HasPrefix(name, "(*sync/atomic.Pointer[") {
		// instantiations of the generic atomic.Pointer[T]: the pointer is kept in the cell of field v
		if k := strings.LastIndex(name, "])."); k >= 0 {
			m := name[k+3:]
			if b := strings.Index(m, "["); b >= 0 {
				m = m[:b]
			}
			if r, ok := i.atomicPointerOp(m, args); ok {
				return r, true
			}
		}
	}
	path := fnPkgPath(fn)
	if isNoopPkg(path) {
		return i.noopResult(fn.Signature, args), true
	}
	if isModelledPkg(path) {
		panic(unsupported{"call into modelled package without a model: " + name})
	}
	if fn.Pkg != nil {
		i.ensureInit(fn.Pkg)
	}
	if fn.Blocks == nil {
		if ext := externals[name]; ext != nil {
			return ext(fr, args), true
		}
		// origin of an instantiated generic?
		panic(unsupported{"no code for function: " + name})
	}
	return nil, false
}

// noopResult fabricates results for a call into a no-op package.
func (i *interpreter) noopResult(sig *types.Signature, args []value) value {
	res := sig.Results()
	mk := func(t types.Type) value {
		if isContextType(t) {
			for _, a := range args {
				if itf, ok := a.(iface); ok && itf.t != nil && isContextImpl(itf.t) {
					return a
				}
			}
			return iface{}
		}
		if _, ok := t.Underlying().(*types.Interface); ok {
			if isErrorType(t) {
				return iface{}
			}
			return iface{t: noopType, v: structure{}}
		}
		return zero(t)
	}
	switch res.Len() {
	case 0:
		return nil
	case 1:
		return mk(res.At(0).Type())
	}
	out := make(tuple, res.Len())
	for k := range out {
		out[k] = mk(res.At(k).Type())
	}
	return out
}

func isContextType(t types.Type) bool {
	n, ok := t.(*types.Named)
	return ok && n.Obj().Pkg() != nil && n.Obj().Pkg().Path() == "context" && n.Obj().Name() == "Context"
}

func isContextImpl(t types.Type) bool {
	if t == cancelCtxType {
		return true
	}
	ms := types.NewMethodSet(t)
	return ms.Lookup(nil, "Deadline") != nil && ms.Lookup(nil, "Done") != nil && ms.Lookup(nil, "Value") != nil
}

func isErrorType(t types.Type) bool {
	n, ok := t.(*types.Named)
	return ok && n.Obj().Pkg() == nil && n.Obj().Name() == "error"
}

// ---- conversions between interpreter values and native Go values ----

func goString(v value, what string) string {
	switch s := v.(type) {
	case string:
		return s
	case opaqueStr:
		panic(unsupported{what + ": opaque string " + s.desc})
	case decStr:
		panic(unsupported{what + ": decimal token of a symbolic integer"})
	case symStr:
		panic(unsupported{what + ": symbolic string"})
	case enumStr:
		panic(unsupported{what + ": enumerated symbolic string"})
	}
	panic(fmt.Sprintf("%s: not a string: %T", what, v))
}

func goBytes(v value, what string) []byte {
	var elems []value
	switch x := v.(type) {
	case []value:
		elems = x
	case array:
		elems = x
	default:
		panic(fmt.Sprintf("%s: not bytes: %T", what, v))
	}
	out := make([]byte, len(elems))
	for k, e := range elems {
		b, ok := e.(byte)
		if !ok {
			panic(unsupported{what + ": symbolic byte passed to native code"})
		}
		out[k] = b
	}
	return out
}

func fromBytes(b []byte) []value {
	if b == nil {
		return nil
	}
	out := make([]value, len(b))
	for k := range b {
		out[k] = b[k]
	}
	return out
}

func fromStrings(ss []string) []value {
	if ss == nil {
		return nil
	}
	out := make([]value, len(ss))
	for k := range ss {
		out[k] = ss[k]
	}
	return out
}

func (i *interpreter) mkError(msg string) value {
	cell := value(structure{msg})
	return iface{t: i.P.errorStringPtr, v: &cell}
}

// callMethod calls a niladic method by name on an interface value, if present.
func (i *interpreter) callMethod(itf iface, name string, args ...value) (value, bool) {
	if itf.t == nil || itf.t == noopType {
		return nil, false
	}
	ms := i.prog.MethodSets.MethodSet(itf.t)
	for k := 0; k < ms.Len(); k++ {
		sel := ms.At(k)
		if sel.Obj().Name() == name {
			f := i.prog.MethodValue(sel)
			if f == nil {
				return nil, false
			}
			return call(i, nil, 0, f, append([]value{itf.v}, args...)), true
		}
	}
	return nil, false
}

// nativeArg converts an interface-boxed argument for fmt-style formatting.
func (i *interpreter) nativeArg(v value) (interface{}, bool) {
	switch x := v.(type) {
	case iface:
		if x.t == nil {
			return nil, true
		}
		if isErrorOrStringer(i, x) {
			if r, ok := i.callMethod(x, "Error"); ok {
				if s, ok := r.(string); ok {
					return fmt.Errorf("%s", s), true
				}
				return nil, false
			}
			if r, ok := i.callMethod(x, "String"); ok {
				if s, ok := r.(string); ok {
					return stringerLit(s), true
				}
				return nil, false
			}
		}
		return i.nativeArg(x.v)
	case bool, int, int8, int16, int32, int64, uint, uint8, uint16, uint32, uint64, uintptr, float32, float64, string:
		return x, true
	case []value:
		if containsSym(x) {
			return nil, false
		}
		allBytes := true
		for _, e := range x {
			if _, ok := e.(byte); !ok {
				allBytes = false
			}
		}
		if allBytes {
			return goBytes(x, "fmt arg"), true
		}
		out := make([]interface{}, len(x))
		for k, e := range x {
			n, ok := i.nativeArg(e)
			if !ok {
				return nil, false
			}
			out[k] = n
		}
		return out, true
	case array:
		if containsSym(x) {
			return nil, false
		}
		return i.nativeArg([]value(x))
	case *value:
		if x == nil {
			return nil, true
		}
		return fmt.Sprintf("%p", x), true
	case symv, symb, opaqueStr, decStr, symStr, enumStr:
		return nil, false
	case structure:
		if containsSym(x) {
			return nil, false
		}
		return toString(x), true
	}
	return toString(v), true
}

type stringerLit string

func (s stringerLit) String() string { return string(s) }

func isErrorOrStringer(i *interpreter, x iface) bool {
	ms := i.prog.MethodSets.MethodSet(x.t)
	for k := 0; k < ms.Len(); k++ {
		n := ms.At(k).Obj().Name()
		if n == "Error" || n == "String" {
			return true
		}
	}
	return false
}

func (i *interpreter) sprintf(format string, args []value) value {
	if format == "%d" && len(args) == 1 {
		v := args[0]
		if itf, ok := v.(iface); ok {
			v = itf.v
		}
		if s, ok := v.(symv); ok && kindWidth(s.k) == 64 {
			return decStr{s.t}
		}
	}
	native := make([]interface{}, len(args))
	for k, a := range args {
		n, ok := i.nativeArg(a)
		if !ok {
			return opaqueStr{"Sprintf(" + strconv.Quote(format) + ") of symbolic data"}
		}
		native[k] = n
	}
	return fmt.Sprintf(format, native...)
}

// errorsIs implements errors.Is over interpreter values.
func (i *interpreter) errorsIs(err, target value) bool {
	e, _ := err.(iface)
	t, _ := target.(iface)
	for depth := 0; depth < 50; depth++ {
		if e.t == nil {
			return t.t == nil
		}
		if sameType(e.t, t.t) && types.Comparable(e.t) && equals(e.t, e.v, t.v) {
			return true
		}
		if r, ok := i.callMethod(e, "Is", t); ok {
			if b, ok := r.(bool); ok && b {
				return true
			}
		}
		r, ok := i.callMethod(e, "Unwrap")
		if !ok {
			return false
		}
		ne, ok := r.(iface)
		if !ok {
			return false
		}
		e = ne
	}
	return false
}

func tupleOrSingle(vs ...value) value {
	if len(vs) == 1 {
		return vs[0]
	}
	return tuple(vs)
}

func (i *interpreter) errOrNil(err error) value {
	if err == nil {
		return iface{}
	}
	return i.mkError(err.Error())
}

func baseHooks() map[string]hookFn {
	h := map[string]hookFn{}

	// --- errors / fmt ---
	h["github.com/pkg/errors.callers"] = func(i *interpreter, fr *frame, fn *ssa.Function, args []value) value {
		return (*value)(nil)
	}
	h["errors.Is"] = func(i *interpreter, fr *frame, fn *ssa.Function, args []value) value {
		return i.errorsIs(args[0], args[1])
	}
	h["github.com/pkg/errors.Is"] = h["errors.Is"]
	h["fmt.Sprintf"] = func(i *interpreter, fr *frame, fn *ssa.Function, args []value) value {
		return i.sprintf(goString(args[0], "Sprintf format"), args[1].([]value))
	}
	h["fmt.Sprint"] = func(i *interpreter, fr *frame, fn *ssa.Function, args []value) value {
		as := args[0].([]value)
		return i.sprintf(strings.Repeat("%v", len(as)), as)
	}
	h["fmt.Errorf"] = func(i *interpreter, fr *frame, fn *ssa.Function, args []value) value {
		format := goString(args[0], "Errorf format")
		as := args[1].([]value)
		s := i.sprintf(strings.ReplaceAll(format, "%w", "%v"), as)
		msg, ok := s.(string)
		if !ok {
			msg = "<error text depends on symbolic data>"
		}
		if strings.Contains(format, "%w") {
			for _, a := range as {
				if itf, ok := a.(iface); ok && itf.t != nil {
					if _, isErr := i.callMethodLookup(itf, "Error"); isErr {
						cell := value(structure{msg, itf})
						return iface{t: i.P.wrapErrorPtr, v: &cell}
					}
				}
			}
		}
		return i.mkError(msg)
	}
	h["fmt.Printf"] = func(i *interpreter, fr *frame, fn *ssa.Function, args []value) value { return tuple{0, iface{}} }
	h["fmt.Println"] = h["fmt.Printf"]
	h["fmt.Print"] = h["fmt.Printf"]
	h["fmt.Fprintf"] = h["fmt.Printf"]
	h["fmt.Fprintln"] = h["fmt.Printf"]

	// --- bytes / strings / strconv / hex on concrete data, symbolic where cheap ---
	h["bytes.Equal"] = func(i *interpreter, fr *frame, fn *ssa.Function, args []value) value {
		a, b := args[0].([]value), args[1].([]value)
		if len(a) != len(b) {
			return false
		}
		var cs []*Term
		for k := range a {
			cs = append(cs, i.symEq(nil, a[k], b[k]))
		}
		return mkBool(And(cs...))
	}
	h["bytes.Compare"] = func(i *interpreter, fr *frame, fn *ssa.Function, args []value) value {
		a, b := goBytes(args[0], "bytes.Compare"), goBytes(args[1], "bytes.Compare")
		return strings.Compare(string(a), string(b))
	}
	str1 := func(f func(string) string) hookFn {
		return func(i *interpreter, fr *frame, fn *ssa.Function, args []value) value {
			return f(goString(args[0], fn.String()))
		}
	}
	h["strings.ToLower"] = str1(strings.ToLower)
	h["strings.ToUpper"] = str1(strings.ToUpper)
	h["strings.TrimSpace"] = str1(strings.TrimSpace)
	h["strings.HasPrefix"] = func(i *interpreter, fr *frame, fn *ssa.Function, args []value) value {
		return strings.HasPrefix(goString(args[0], "HasPrefix"), goString(args[1], "HasPrefix"))
	}
	h["strings.HasSuffix"] = func(i *interpreter, fr *frame, fn *ssa.Function, args []value) value {
		return strings.HasSuffix(goString(args[0], "HasSuffix"), goString(args[1], "HasSuffix"))
	}
	h["strings.Contains"] = func(i *interpreter, fr *frame, fn *ssa.Function, args []value) value {
		return strings.Contains(goString(args[0], "Contains"), goString(args[1], "Contains"))
	}
	h["strings.Index"] = func(i *interpreter, fr *frame, fn *ssa.Function, args []value) value {
		return strings.Index(goString(args[0], "Index"), goString(args[1], "Index"))
	}
	h["strings.EqualFold"] = func(i *interpreter, fr *frame, fn *ssa.Function, args []value) value {
		return strings.EqualFold(goString(args[0], "EqualFold"), goString(args[1], "EqualFold"))
	}
	h["strings.Split"] = func(i *interpreter, fr *frame, fn *ssa.Function, args []value) value {
		return fromStrings(strings.Split(goString(args[0], "Split"), goString(args[1], "Split")))
	}
	h["strings.SplitN"] = func(i *interpreter, fr *frame, fn *ssa.Function, args []value) value {
		return fromStrings(strings.SplitN(goString(args[0], "SplitN"), goString(args[1], "SplitN"), int(asInt64(args[2]))))
	}
	h["strings.TrimPrefix"] = func(i *interpreter, fr *frame, fn *ssa.Function, args []value) value {
		return strings.TrimPrefix(goString(args[0], "TrimPrefix"), goString(args[1], "TrimPrefix"))
	}
	h["strings.TrimSuffix"] = func(i *interpreter, fr *frame, fn *ssa.Function, args []value) value {
		return strings.TrimSuffix(goString(args[0], "TrimSuffix"), goString(args[1], "TrimSuffix"))
	}
	h["strings.Trim"] = func(i *interpreter, fr *frame, fn *ssa.Function, args []value) value {
		return strings.Trim(goString(args[0], "Trim"), goString(args[1], "Trim"))
	}
	h["strings.Join"] = func(i *interpreter, fr *frame, fn *ssa.Function, args []value) value {
		var ss []string
		for _, e := range args[0].([]value) {
			ss = append(ss, goString(e, "Join"))
		}
		return strings.Join(ss, goString(args[1], "Join"))
	}
	h["strings.Replace"] = func(i *interpreter, fr *frame, fn *ssa.Function, args []value) value {
		return strings.Replace(goString(args[0], "Replace"), goString(args[1], "Replace"), goString(args[2], "Replace"), int(asInt64(args[3])))
	}
	h["strings.ReplaceAll"] = func(i *interpreter, fr *frame, fn *ssa.Function, args []value) value {
		return strings.ReplaceAll(goString(args[0], "ReplaceAll"), goString(args[1], "ReplaceAll"), goString(args[2], "ReplaceAll"))
	}
	h["strings.Count"] = func(i *interpreter, fr *frame, fn *ssa.Function, args []value) value {
		return strings.Count(goString(args[0], "Count"), goString(args[1], "Count"))
	}
	h["strings.IndexByte"] = func(i *interpreter, fr *frame, fn *ssa.Function, args []value) value {
		return strings.IndexByte(goString(args[0], "IndexByte"), args[1].(byte))
	}
	h["strings.LastIndex"] = func(i *interpreter, fr *frame, fn *ssa.Function, args []value) value {
		return strings.LastIndex(goString(args[0], "LastIndex"), goString(args[1], "LastIndex"))
	}
	h["strconv.Itoa"] = func(i *interpreter, fr *frame, fn *ssa.Function, args []value) value {
		return strconv.Itoa(int(i.concreteInt64(args[0], "Itoa")))
	}
	h["strconv.Atoi"] = func(i *interpreter, fr *frame, fn *ssa.Function, args []value) value {
		n, err := strconv.Atoi(goString(args[0], "Atoi"))
		return tuple{n, i.errOrNil(err)}
	}
	h["strconv.Quote"] = str1(strconv.Quote)
	h["encoding/hex.EncodeToString"] = func(i *interpreter, fr *frame, fn *ssa.Function, args []value) value {
		if containsSym(args[0]) {
			return opaqueStr{"hex of symbolic bytes"}
		}
		return hex.EncodeToString(goBytes(args[0], "hex.EncodeToString"))
	}
	h["encoding/hex.DecodeString"] = func(i *interpreter, fr *frame, fn *ssa.Function, args []value) value {
		b, err := hex.DecodeString(goString(args[0], "hex.DecodeString"))
		return tuple{fromBytes(b), i.errOrNil(err)}
	}
	h["net.JoinHostPort"] = func(i *interpreter, fr *frame, fn *ssa.Function, args []value) value {
		return net.JoinHostPort(goString(args[0], "JoinHostPort"), goString(args[1], "JoinHostPort"))
	}
	h["path/filepath.IsAbs"] = func(i *interpreter, fr *frame, fn *ssa.Function, args []value) value {
		return filepath.IsAbs(goString(args[0], "filepath.IsAbs"))
	}
	h["path/filepath.Join"] = func(i *interpreter, fr *frame, fn *ssa.Function, args []value) value {
		var ss []string
		for _, e := range args[0].([]value) {
			ss = append(ss, goString(e, "filepath.Join"))
		}
		return filepath.Join(ss...)
	}

	// --- regexp: compiled natively, handle kept in a one-field struct ---
	h["regexp.Compile"] = func(i *interpreter, fr *frame, fn *ssa.Function, args []value) value {
		re, err := regexp.Compile(goString(args[0], "regexp.Compile"))
		if err != nil {
			return tuple{(*value)(nil), i.mkError(err.Error())}
		}
		cell := value(nativeHandle{re})
		return tuple{&cell, iface{}}
	}
	h["regexp.MustCompile"] = func(i *interpreter, fr *frame, fn *ssa.Function, args []value) value {
		re := regexp.MustCompile(goString(args[0], "regexp.MustCompile"))
		cell := value(nativeHandle{re})
		return &cell
	}
	h["(*regexp.Regexp).MatchString"] = func(i *interpreter, fr *frame, fn *ssa.Function, args []value) value {
		re := (*args[0].(*value)).(nativeHandle).v.(*regexp.Regexp)
		return re.MatchString(goString(args[1], "MatchString"))
	}
	h["(*regexp.Regexp).Match"] = func(i *interpreter, fr *frame, fn *ssa.Function, args []value) value {
		re := (*args[0].(*value)).(nativeHandle).v.(*regexp.Regexp)
		return re.Match(goBytes(args[1], "Match"))
	}
	h["(*regexp.Regexp).String"] = func(i *interpreter, fr *frame, fn *ssa.Function, args []value) value {
		re := (*args[0].(*value)).(nativeHandle).v.(*regexp.Regexp)
		return re.String()
	}

	// --- context ---
	h["context.WithValue"] = func(i *interpreter, fr *frame, fn *ssa.Function, args []value) value {
		cell := value(structure{args[0], args[1], args[2]})
		return iface{t: i.P.valueCtxPtr, v: &cell}
	}
	h["context.WithCancel"] = func(i *interpreter, fr *frame, fn *ssa.Function, args []value) value {
		return i.newCancelCtx(args[0].(iface))
	}

	// --- time ---
	h["time.Now"] = func(i *interpreter, fr *frame, fn *ssa.Function, args []value) value {
		return i.timeNow(fn)
	}
	h["time.Since"] = func(i *interpreter, fr *frame, fn *ssa.Function, args []value) value {
		now := i.timeNow(nil).(structure)
		then := args[0].(structure)
		return i.binop(tokenSUB, nil, now[1], then[1])
	}
	h["(time.Time).Sub"] = func(i *interpreter, fr *frame, fn *ssa.Function, args []value) value {
		a := args[0].(structure)
		b := args[1].(structure)
		return i.binop(tokenSUB, nil, a[1], b[1])
	}
	h["time.Sleep"] = func(i *interpreter, fr *frame, fn *ssa.Function, args []value) value { return nil }

	// --- runtime ---
	h["runtime.GOMAXPROCS"] = func(i *interpreter, fr *frame, fn *ssa.Function, args []value) value {
		if i.gomaxprocs == nil {
			return 1
		}
		return i.gomaxprocs
	}
	h["runtime.Gosched"] = func(i *interpreter, fr *frame, fn *ssa.Function, args []value) value { return nil }
	h["runtime.KeepAlive"] = func(i *interpreter, fr *frame, fn *ssa.Function, args []value) value { return nil }
	h["runtime.SetFinalizer"] = func(i *interpreter, fr *frame, fn *ssa.Function, args []value) value { return nil }

	h["os.Getenv"] = func(i *interpreter, fr *frame, fn *ssa.Function, args []value) value { return "" }
	h["os.LookupEnv"] = func(i *interpreter, fr *frame, fn *ssa.Function, args []value) value { return tuple{"", false} }
	addSyncHooks(h)
	addSortHooks(h)
	addBytealgHooks(h)
	addNetModel(h)
	return h
}

type nativeHandle struct{ v interface{} }

func (i *interpreter) callMethodLookup(itf iface, name string) (*ssa.Function, bool) {
	if itf.t == nil || itf.t == noopType {
		return nil, false
	}
	ms := i.prog.MethodSets.MethodSet(itf.t)
	for k := 0; k < ms.Len(); k++ {
		if ms.At(k).Obj().Name() == name {
			return i.prog.MethodValue(ms.At(k)), true
		}
	}
	return nil, false
}

// atomicPointerOp implements the methods of atomic.Pointer[T] (struct { _ [0]*T; _ noCopy; v unsafe.Pointer }):
// the stored *T lives, as a *value, in the last field.
func (i *interpreter) atomicPointerOp(method string, args []value) (value, bool) {
	p, ok := args[0].(*value)
	if !ok || p == nil {
		panic(runtimeErrorString("runtime error: invalid memory address or nil pointer dereference"))
	}
	st, ok := (*p).(structure)
	if !ok || len(st) == 0 {
		return nil, false
	}
	cell := &st[len(st)-1]
	get := func() value {
		if q, ok := (*cell).(*value); ok {
			return q
		}
		return (*value)(nil)
	}
	switch method {
	case "Load":
		i.yield("atomic.Pointer.Load")
		return get(), true
	case "Store":
		i.yield("atomic.Pointer.Store")
		*cell = args[1]
		return nil, true
	case "Swap":
		i.yield("atomic.Pointer.Swap")
		old := get()
		*cell = args[1]
		return old, true
	case "CompareAndSwap":
		i.yield("atomic.Pointer.CompareAndSwap")
		if get() == args[1].(*value) {
			*cell = args[2]
			return true, true
		}
		return false, true
	}
	return nil, false
}

// sort.Slice / sort.SliceStable (the library goes through reflect): a stable insertion sort that
// calls the target's less function and swaps the elements in place.
func addSortHooks(h map[string]hookFn) {
	sortSlice := func(i *interpreter, fr *frame, fn *ssa.Function, args []value) value {
		itf, ok := args[0].(iface)
		if !ok {
			panic(unsupported{"sort.Slice: argument is not an interface value"})
		}
		xs, ok := itf.v.([]value)
		if !ok {
			panic(targetPanic{iface{t: types.Typ[types.String], v: "sort.Slice: argument is not a slice"}})
		}
		less := args[1]
		for a := 1; a < len(xs); a++ {
			for b := a; b > 0; b-- {
				if !i.truth(call(i, fr, 0, less, []value{b, b - 1})) {
					break
				}
				xs[b], xs[b-1] = xs[b-1], xs[b]
			}
		}
		return nil
	}
	h["sort.Slice"] = sortSlice
	h["sort.SliceStable"] = sortSlice
	h["sort.SliceIsSorted"] = func(i *interpreter, fr *frame, fn *ssa.Function, args []value) value {
		xs, _ := args[0].(iface).v.([]value)
		for a := 1; a < len(xs); a++ {
			if i.truth(call(i, fr, 0, args[1], []value{a, a - 1})) {
				return false
			}
		}
		return true
	}
}

// internal/bytealg: the assembly primitives under strings and bytes, on concrete values.
func addBytealgHooks(h map[string]hookFn) {
	const p = "internal/bytealg."
	b := func(v value) byte { return byte(asInt64(v)) }
	h[p+"IndexByteString"] = func(i *interpreter, fr *frame, fn *ssa.Function, args []value) value {
		return strings.IndexByte(goString(args[0], "IndexByteString"), b(args[1]))
	}
	h[p+"LastIndexByteString"] = func(i *interpreter, fr *frame, fn *ssa.Function, args []value) value {
		return strings.LastIndexByte(goString(args[0], "LastIndexByteString"), b(args[1]))
	}
	h[p+"IndexByte"] = func(i *interpreter, fr *frame, fn *ssa.Function, args []value) value {
		return bytes.IndexByte(goBytes(args[0], "bytealg.IndexByte"), b(args[1]))
	}
	h[p+"LastIndexByte"] = func(i *interpreter, fr *frame, fn *ssa.Function, args []value) value {
		return bytes.LastIndexByte(goBytes(args[0], "bytealg.LastIndexByte"), b(args[1]))
	}
	h[p+"CountString"] = func(i *interpreter, fr *frame, fn *ssa.Function, args []value) value {
		return strings.Count(goString(args[0], "CountString"), string([]byte{b(args[1])}))
	}
	h[p+"Count"] = func(i *interpreter, fr *frame, fn *ssa.Function, args []value) value {
		return bytes.Count(goBytes(args[0], "bytealg.Count"), []byte{b(args[1])})
	}
	h[p+"IndexString"] = func(i *interpreter, fr *frame, fn *ssa.Function, args []value) value {
		return strings.Index(goString(args[0], "IndexString"), goString(args[1], "IndexString"))
	}
	h[p+"Index"] = func(i *interpreter, fr *frame, fn *ssa.Function, args []value) value {
		return bytes.Index(goBytes(args[0], "bytealg.Index"), goBytes(args[1], "bytealg.Index"))
	}
	h[p+"Equal"] = func(i *interpreter, fr *frame, fn *ssa.Function, args []value) value {
		return h["bytes.Equal"](i, fr, fn, args)
	}
	h[p+"Compare"] = func(i *interpreter, fr *frame, fn *ssa.Function, args []value) value {
		return bytes.Compare(goBytes(args[0], "bytealg.Compare"), goBytes(args[1], "bytealg.Compare"))
	}
}
