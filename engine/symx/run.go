package symx

// Exploration: decisions, path condition, assertions, control panics.

import (
	"fmt"
	"go/types"
	"sort"
	"strconv"
	"strings"

	"golang.org/x/tools/go/ssa"
)

// ---- control panics (never visible to the target program) ----

type pathEnd struct{ reason string }      // path is over (infeasible / Assume false / deliberate end)
type unsupported struct{ msg string }     // construct outside the executor's reach
type abortAll struct{ reason string }     // another thread ended the run
type budgetExceeded struct{ what string } // unwinding assertion failed
type crashed struct {                     // target panic escaped a goroutine
	msg string
}

func isControl(p interface{}) bool {
	switch p.(type) {
	case pathEnd, unsupported, abortAll, budgetExceeded, crashed, processCrash:
		return true
	}
	return false
}

type decision struct {
	kind string
	alts []int // feasible alternatives
	idx  int   // index into alts currently taken
	n    int
}

// Violation is a satisfiable negated assertion (a candidate until replayed).
type Violation struct {
	Harness  string            `json:"harness"`
	Assert   string            `json:"assert"`
	Class    string            `json:"class,omitempty"` // known-finding class, "" if none
	Model    map[string]string `json:"model"`
	Chooses  map[string]int    `json:"chooses"`
	Trace    []string          `json:"trace,omitempty"`
	Note     string            `json:"note,omitempty"`
	PathCond string            `json:"-"`
}

type runState struct {
	w         *Worker
	harness   string
	pc        []*Term
	dptr      int
	steps     int64
	depth     int
	vars      []*Term
	varByName map[string]*Term
	chooses   map[string]int
	chooseCnt map[string]int
	classes   map[string]*Term
	outs      []string
	zeroCells map[string]*value
	side      map[interface{}]interface{}
	models    map[string]interface{}
	nameCnt   map[string]int
	trace     []string
	allowInit *ssa.Function
	sched
	intrinsicState
	concFails      []string
	hashes         []hashRecord
	intSide        []*Term
	randReads      int
	intSideChecked int
}

func (i *interpreter) replaying() bool { return i.dptr < len(i.w.decisions) }

// decide takes (or replays) a decision among n alternatives; cond(k) is the
// constraint of alternative k (nil = unconditional).
func (i *interpreter) decide(kind string, n int, cond func(k int) *Term) int {
	w := i.w
	if i.dptr < len(w.decisions) {
		d := w.decisions[i.dptr]
		if d.kind != kind || d.n != n {
			panic(unsupported{fmt.Sprintf("non-deterministic re-execution: decision %d was %s/%d, now %s/%d", i.dptr, d.kind, d.n, kind, n)})
		}
		i.dptr++
		ch := d.alts[d.idx]
		if c := cond(ch); c != nil {
			i.addPC(c)
		}
		return ch
	}
	var alts []int
	order := make([]int, n)
	for k := range order {
		order[k] = k
	}
	if w.seed != 0 && n > 1 {
		r := int((uint64(w.seed)*2654435761 + uint64(len(w.decisions))*40503) % uint64(n))
		order = append(order[r:], order[:r]...)
	}
	unknown := 0
	for pos, k := range order {
		c := cond(k)
		if c == nil || c.IsTrue() {
			alts = append(alts, k)
			continue
		}
		if c.IsFalse() {
			continue
		}
		// The path condition is satisfiable; if every other alternative of a
		// complementary pair is infeasible the last one need not be queried.
		if n == 2 && pos == 1 && len(alts) == 0 && unknown == 0 {
			alts = append(alts, k)
			continue
		}
		res, _ := w.solver.Check(c, nil)
		w.stats.FeasQueries++
		switch res {
		case "sat":
			alts = append(alts, k)
		case "unsat":
		default:
			unknown++
			w.stats.FeasUnknown++
			alts = append(alts, k) // unknown = keep
		}
	}
	if len(alts) == 0 {
		panic(pathEnd{"infeasible"})
	}
	w.decisions = append(w.decisions, &decision{kind: kind, alts: alts, n: n})
	i.dptr++
	ch := alts[0]
	if c := cond(ch); c != nil {
		i.addPC(c)
	}
	return ch
}

func (i *interpreter) addPC(c *Term) {
	if c.IsTrue() {
		return
	}
	i.pc = append(i.pc, c)
	i.w.solver.Assert(c)
}

// branch forks on a symbolic condition.
func (i *interpreter) branch(c *Term) bool {
	if c.IsTrue() {
		return true
	}
	if c.IsFalse() {
		return false
	}
	i.w.stats.Branches++
	ch := i.decide("br", 2, func(k int) *Term {
		if k == 0 {
			return c
		}
		return Not(c)
	})
	return ch == 0
}

func (i *interpreter) truth(v value) bool {
	switch x := v.(type) {
	case bool:
		return x
	case symb:
		return i.branch(x.t)
	}
	panic(fmt.Sprintf("truth: unexpected %T", v))
}

// concreteInt64 requires an integer to be concrete.
func (i *interpreter) concreteInt64(v value, what string) int64 {
	if s, ok := v.(symv); ok {
		return i.concretize(s, what, 64)
	}
	return asInt64(v)
}

// concretize forks over the values 0..max of a symbolic integer (sizes and
// lengths the code allocates by); any other feasible value is outside the
// executor's reach and reported as such.
func (i *interpreter) concretize(s symv, what string, max int) int64 {
	eq := func(k int) *Term {
		if s.t.sort == SInt {
			return Eq(s.t, IntConst(int64(k)))
		}
		return Eq(s.t, BVConst(s.t.sort, uint64(k)))
	}
	k := i.decide("concretize:"+what, max+2, func(k int) *Term {
		if k <= max {
			return eq(k)
		}
		var cs []*Term
		for j := 0; j <= max; j++ {
			cs = append(cs, Not(eq(j)))
		}
		return And(cs...)
	})
	if k > max {
		panic(unsupported{fmt.Sprintf("symbolic %s outside 0..%d: %s", what, max, s.t.String())})
	}
	return int64(k)
}

// indexOf resolves an index (panicking like Go on out-of-range).
func (i *interpreter) indexOf(idx value, n int) int {
	if s, ok := idx.(symv); ok {
		// concretise by forking over the possible in-range values; for long sequences the feasible
		// values are enumerated from solver models instead of being tested one by one
		if n > 64 {
			if n > 4096 || s.t.sort == SInt {
				panic(unsupported{"symbolic index into long sequence"})
			}
			return i.indexByModels(s, n)
		}
		w := kindWidth(s.k)
		k := i.decide("idx", n+1, func(k int) *Term {
			if k == n {
				if kindSigned(s.k) {
					return Or(BVCmp("bvslt", s.t, BVConst(w, 0)), BVCmp("bvsge", s.t, BVConst(w, uint64(n))))
				}
				return BVCmp("bvuge", s.t, BVConst(w, uint64(n)))
			}
			return Eq(s.t, BVConst(w, uint64(k)))
		})
		if k == n {
			panic(runtimeErrorString(fmt.Sprintf("runtime error: index out of range [symbolic] with length %d", n)))
		}
		return k
	}
	j := asInt64(idx)
	if j < 0 || j >= int64(n) {
		panic(runtimeErrorString(fmt.Sprintf("runtime error: index out of range [%d] with length %d", j, n)))
	}
	return int(j)
}

// indexByModels forks over the feasible values of a symbolic index into a sequence of length n
// (n = out of range), found by repeatedly asking the solver for a value not seen yet.
func (i *interpreter) indexByModels(s symv, n int) int {
	w := i.w
	width := kindWidth(s.k)
	cond := func(k int) *Term {
		if k == n {
			if kindSigned(s.k) {
				return Or(BVCmp("bvslt", s.t, BVConst(width, 0)), BVCmp("bvsge", s.t, BVConst(width, uint64(n))))
			}
			return BVCmp("bvuge", s.t, BVConst(width, uint64(n)))
		}
		return Eq(s.t, BVConst(width, uint64(k)))
	}
	const kind = "idx-by-models"
	if i.dptr < len(w.decisions) {
		d := w.decisions[i.dptr]
		if d.kind != kind || d.n != n+1 {
			panic(unsupported{fmt.Sprintf("non-deterministic re-execution: decision %d was %s/%d, now %s/%d", i.dptr, d.kind, d.n, kind, n+1)})
		}
		i.dptr++
		ch := d.alts[d.idx]
		i.addPC(cond(ch))
		if ch == n {
			panic(runtimeErrorString(fmt.Sprintf("runtime error: index out of range [symbolic] with length %d", n)))
		}
		return ch
	}
	var alts []int
	inRange := Not(cond(n))
	excl := []*Term{inRange}
	for len(alts) < n {
		res, model := w.solver.Check(And(excl...), []*Term{s.t})
		w.stats.FeasQueries++
		if res == "unsat" {
			break
		}
		if res != "sat" {
			panic(unsupported{"symbolic index into long sequence: solver answered " + res})
		}
		raw := strings.TrimSpace(model[s.t.leaf()])
		var v uint64
		var err error
		switch {
		case strings.HasPrefix(raw, "#x"):
			v, err = strconv.ParseUint(raw[2:], 16, 64)
		case strings.HasPrefix(raw, "#b"):
			v, err = strconv.ParseUint(raw[2:], 2, 64)
		default:
			err = fmt.Errorf("no value")
		}
		if err != nil || v >= uint64(n) {
			panic(unsupported{"symbolic index into long sequence: unreadable model value " + raw})
		}
		alts = append(alts, int(v))
		excl = append(excl, Not(cond(int(v))))
	}
	if res, _ := w.solver.Check(cond(n), nil); res != "unsat" {
		w.stats.FeasQueries++
		alts = append(alts, n)
	}
	if len(alts) == 0 {
		panic(pathEnd{"infeasible"})
	}
	w.decisions = append(w.decisions, &decision{kind: kind, alts: alts, n: n + 1})
	i.dptr++
	ch := alts[0]
	i.addPC(cond(ch))
	if ch == n {
		panic(runtimeErrorString(fmt.Sprintf("runtime error: index out of range [symbolic] with length %d", n)))
	}
	return ch
}

func (i *interpreter) step(fr *frame, instr ssa.Instruction) {
	i.steps++
	i.w.stats.Steps++
	if i.steps > i.w.maxSteps {
		panic(budgetExceeded{fmt.Sprintf("step budget %d exceeded in %s", i.w.maxSteps, fr.fn)})
	}
	if i.aborting {
		panic(abortAll{"run aborted"})
	}
}

// global returns the address of a global, allocating lazily and running the
// owning package's initialiser first.
func (i *interpreter) global(g *ssa.Global) *value {
	if r, ok := i.globals[g]; ok {
		return r
	}
	cell := zero(mustDeref(g.Type()))
	r := &cell
	i.globals[g] = r
	if g.Pkg != nil {
		i.ensureInit(g.Pkg)
	}
	if f := i.P.globalInit[g.String()]; f != nil {
		f(i, r)
	}
	return r
}

func isStdlib(path string) bool {
	first := path
	if k := strings.IndexByte(path, '/'); k >= 0 {
		first = path[:k]
	}
	return !strings.Contains(first, ".")
}

func (i *interpreter) ensureInit(pkg *ssa.Package) {
	if pkg == nil || i.inited[pkg] {
		return
	}
	i.inited[pkg] = true
	path := pkg.Pkg.Path()
	if !i.P.wantInit(path) {
		return
	}
	init := pkg.Func("init")
	if init == nil || init.Blocks == nil {
		return
	}
	saved := i.allowInit
	i.allowInit = init
	callSSA(i, nil, init.Pos(), init, nil, nil)
	i.allowInit = saved
}

// newCell allocates a heap cell; zero-size types share one cell per type, as
// the gc runtime's zerobase does (dirk's context keys rely on it).
func (i *interpreter) newCell(t types.Type) *value {
	switch u := t.Underlying().(type) {
	case *types.Struct:
		if u.NumFields() == 0 {
			return i.zeroCell(t)
		}
	case *types.Array:
		if u.Len() == 0 {
			return i.zeroCell(t)
		}
	}
	return new(value)
}

func (i *interpreter) zeroCell(t types.Type) *value {
	k := t.String()
	if c, ok := i.zeroCells[k]; ok {
		return c
	}
	c := new(value)
	i.zeroCells[k] = c
	return c
}

// appendSlice implements append with the gc runtime's growth policy so that
// capacities observed by the target (s[0:4] on a short slice) are faithful.
func (i *interpreter) appendSlice(fn *ssa.Builtin, dst, src []value) []value {
	need := len(dst) + len(src)
	if need <= cap(dst) {
		return append(dst, src...)
	}
	esz := int64(8)
	var elemT types.Type
	if sig, ok := fn.Type().(*types.Signature); ok && sig.Params().Len() > 0 {
		if sl, ok := sig.Params().At(0).Type().Underlying().(*types.Slice); ok {
			elemT = sl.Elem()
			esz = i.sizes.Sizeof(elemT)
		}
	}
	newcap := growCap(cap(dst), need, esz)
	out := make([]value, newcap)
	copy(out, dst)
	copy(out[len(dst):], src)
	// the spare capacity is zeroed memory, visible through re-slicing
	if elemT != nil {
		for k := need; k < newcap; k++ {
			out[k] = zero(elemT)
		}
	}
	return out[:need]
}

var sizeClasses = []int64{0, 8, 16, 24, 32, 48, 64, 80, 96, 112, 128, 144, 160, 176, 192, 208, 224, 240, 256, 288, 320, 352, 384, 416, 448, 480, 512, 576, 640, 704, 768, 896, 1024, 1152, 1280, 1408, 1536, 1792, 2048, 2304, 2688, 3072, 3200, 3456, 4096, 4864, 5376, 6144, 6528, 6784, 6912, 8192, 9472, 9728, 10240, 10880, 12288, 13568, 14336, 16384, 18432, 19072, 20480, 21760, 24576, 27264, 28672, 32768}

func roundupsize(n int64) int64 {
	for _, c := range sizeClasses {
		if c >= n {
			return c
		}
	}
	// large: round to page size
	return (n + 8191) &^ 8191
}

func growCap(oldCap, newLen int, esz int64) int {
	newcap := oldCap
	doublecap := newcap + newcap
	if newLen > doublecap {
		newcap = newLen
	} else {
		const threshold = 256
		if oldCap < threshold {
			newcap = doublecap
		} else {
			for newcap < newLen {
				newcap += (newcap + 3*threshold) >> 2
			}
		}
	}
	if esz <= 0 {
		return newcap
	}
	mem := roundupsize(int64(newcap) * esz)
	return int(mem / esz)
}

// ---- symbolic inputs ----

func (i *interpreter) freshName(name string) string {
	n := i.nameCnt[name]
	i.nameCnt[name] = n + 1
	clean := strings.Map(func(r rune) rune {
		if (r >= 'a' && r <= 'z') || (r >= 'A' && r <= 'Z') || (r >= '0' && r <= '9') || r == '_' {
			return r
		}
		return '_'
	}, name)
	if n == 0 {
		return clean
	}
	return fmt.Sprintf("%s__%d", clean, n)
}

func (i *interpreter) newVar(name string, sort Sort) *Term {
	nm := i.freshName(name)
	v := Var(nm, sort)
	i.vars = append(i.vars, v)
	i.varByName[nm] = v
	return v
}

func (i *interpreter) symInt(name string, k types.BasicKind) value {
	if c := i.w.concrete; c != nil {
		bits, _ := ParseBV(c.Model[i.freshName(name)])
		return concreteInt(k, bits&mask(kindWidth(k)))
	}
	return symv{k, i.newVar(name, kindWidth(k))}
}

func (i *interpreter) symBool(name string) value {
	if c := i.w.concrete; c != nil {
		bits, _ := ParseBV(c.Model[i.freshName(name)])
		return bits != 0
	}
	return symb{i.newVar(name, SBool)}
}

// assertHolds is the deciding query: path-condition ∧ ¬c.
func (i *interpreter) assertHolds(id string, c *Term) {
	w := i.w
	if id != "int-mode-faithful" {
		i.checkIntSide()
	}
	w.noteAssert(i.harness, id)
	if w.concrete != nil {
		if c.IsFalse() {
			i.concFails = append(i.concFails, id)
		}
		return
	}
	if c.IsTrue() {
		w.noteDischarged(i.harness, id, true)
		return
	}
	neg := Not(c)
	// known-finding classes that are open split the query
	var open []*Term
	var openNames []string
	for name, t := range i.classes {
		if w.exp.openClasses[name] {
			open = append(open, t)
			openNames = append(openNames, name)
		}
	}
	sort.Strings(openNames)
	q := neg
	if len(open) > 0 {
		q = And(neg, Not(Or(open...)))
	}
	res, model := w.solver.Check(q, i.vars)
	w.stats.AssertQueries++
	w.dumpQuery(i, id, q, res)
	switch res {
	case "unsat":
		w.noteDischarged(i.harness, id, false)
	case "sat":
		w.addViolation(i.mkViolation(id, "", model))
	default:
		w.noteInconclusive(i.harness, id, "solver answered "+res+" on assertion")
	}
	for _, name := range openNames {
		r2, m2 := w.solver.Check(And(neg, i.classes[name]), i.vars)
		w.stats.AssertQueries++
		if r2 == "sat" {
			w.addViolation(i.mkViolation(id, name, m2))
		} else if r2 != "unsat" {
			w.noteInconclusive(i.harness, id, "solver answered "+r2+" on known-class query")
		}
	}
	// continue the path under the assertion (if that is still possible)
	if res != "unsat" || len(open) > 0 {
		r3, _ := w.solver.Check(c, nil)
		if r3 == "unsat" {
			panic(pathEnd{"assertion fails on the whole path"})
		}
	}
	i.addPC(c)
}

func (i *interpreter) mkViolation(id, class string, model map[string]string) Violation {
	v := Violation{Harness: i.harness, Assert: id, Class: class, Model: map[string]string{}, Chooses: map[string]int{}}
	for k, val := range model {
		v.Model[k] = val
	}
	for k, c := range i.chooses {
		v.Chooses[k] = c
	}
	v.Trace = append(v.Trace, i.trace...)
	return v
}

// assume restricts the path; ends it if the restriction is unsatisfiable.
func (i *interpreter) assume(c *Term) {
	if c.IsTrue() {
		return
	}
	if c.IsFalse() {
		panic(pathEnd{"assume false"})
	}
	if !i.replaying() {
		res, _ := i.w.solver.Check(c, nil)
		i.w.stats.FeasQueries++
		if res == "unsat" {
			panic(pathEnd{"assume infeasible"})
		}
	}
	i.addPC(c)
}
