package symx

// Symbolic values: Go integers as bit-vectors of their width, bools as SMT Bool.

import (
	"fmt"
	"go/token"
	"go/types"
)

type symv struct {
	k types.BasicKind // Int .. Uintptr
	t *Term
}

type symb struct{ t *Term }

// opaqueStr is a string whose content depends on symbolic data and that was
// produced only for diagnostics (log/error text).  Any attempt to inspect it
// aborts the run as unsupported.
type opaqueStr struct{ desc string }

func kindWidth(k types.BasicKind) Sort {
	switch k {
	case types.Int8, types.Uint8:
		return 8
	case types.Int16, types.Uint16:
		return 16
	case types.Int32, types.Uint32:
		return 32
	case types.Int, types.Uint, types.Int64, types.Uint64, types.Uintptr:
		return 64
	}
	panic(fmt.Sprintf("kindWidth: %v", k))
}

func kindSigned(k types.BasicKind) bool {
	switch k {
	case types.Int, types.Int8, types.Int16, types.Int32, types.Int64:
		return true
	}
	return false
}

// intKind returns the basic kind of a concrete integer value.
func intKind(v value) (types.BasicKind, uint64, bool) {
	switch x := v.(type) {
	case int:
		return types.Int, uint64(x), true
	case int8:
		return types.Int8, uint64(x), true
	case int16:
		return types.Int16, uint64(x), true
	case int32:
		return types.Int32, uint64(x), true
	case int64:
		return types.Int64, uint64(x), true
	case uint:
		return types.Uint, uint64(x), true
	case uint8:
		return types.Uint8, uint64(x), true
	case uint16:
		return types.Uint16, uint64(x), true
	case uint32:
		return types.Uint32, uint64(x), true
	case uint64:
		return types.Uint64, x, true
	case uintptr:
		return types.Uintptr, uint64(x), true
	}
	return 0, 0, false
}

// concreteInt builds a concrete interpreter value of kind k from bits.
func concreteInt(k types.BasicKind, bits uint64) value {
	switch k {
	case types.Int:
		return int(bits)
	case types.Int8:
		return int8(bits)
	case types.Int16:
		return int16(bits)
	case types.Int32:
		return int32(bits)
	case types.Int64:
		return int64(bits)
	case types.Uint:
		return uint(bits)
	case types.Uint8:
		return uint8(bits)
	case types.Uint16:
		return uint16(bits)
	case types.Uint32:
		return uint32(bits)
	case types.Uint64:
		return bits
	case types.Uintptr:
		return uintptr(bits)
	}
	panic("concreteInt: bad kind")
}

func isSym(v value) bool {
	switch v.(type) {
	case symv, symb:
		return true
	}
	return false
}

// intTerm returns (kind, term) for an integer value, concrete or symbolic.
func intTerm(v value) (types.BasicKind, *Term, bool) {
	if s, ok := v.(symv); ok {
		return s.k, s.t, true
	}
	if k, bits, ok := intKind(v); ok {
		return k, BVConst(kindWidth(k), bits), true
	}
	return 0, nil, false
}

func boolTerm(v value) (*Term, bool) {
	switch x := v.(type) {
	case bool:
		return BoolConst(x), true
	case symb:
		return x.t, true
	}
	return nil, false
}

// mkInt wraps a term as a value, collapsing constants to concrete values.
func mkInt(k types.BasicKind, t *Term) value {
	if t.isConst() {
		return concreteInt(k, t.val)
	}
	return symv{k, t}
}

func mkBool(t *Term) value {
	if t.IsTrue() {
		return true
	}
	if t.IsFalse() {
		return false
	}
	return symb{t}
}

// containsSym reports whether v (deeply, without following pointers) holds a symbolic part.
func containsSym(v value) bool {
	switch x := v.(type) {
	case symv, symb, opaqueStr, decStr, symStr, enumStr:
		return true
	case array:
		for _, e := range x {
			if containsSym(e) {
				return true
			}
		}
	case structure:
		for _, e := range x {
			if containsSym(e) {
				return true
			}
		}
	case []value:
		for _, e := range x {
			if containsSym(e) {
				return true
			}
		}
	case iface:
		return containsSym(x.v)
	case tuple:
		for _, e := range x {
			if containsSym(e) {
				return true
			}
		}
	}
	return false
}

// symBinop implements binary operators when at least one operand is symbolic.
func (i *interpreter) symBinop(op token.Token, t types.Type, x, y value) value {
	switch op {
	case token.EQL:
		return mkBool(i.symEq(t, x, y))
	case token.NEQ:
		return mkBool(Not(i.symEq(t, x, y)))
	}
	if op == token.SHL || op == token.SHR {
		return i.symShift(op, x, y)
	}
	kx, tx, okx := intTerm(x)
	ky, ty, oky := intTerm(y)
	if !okx || !oky {
		panic(unsupported{fmt.Sprintf("symbolic binop %s on %T, %T", op, x, y)})
	}
	if tx.sort == SInt || ty.sort == SInt {
		return i.intModeBinop(op, kx, tx, ty)
	}
	if kindWidth(kx) != kindWidth(ky) {
		panic(unsupported{fmt.Sprintf("symbolic binop %s width mismatch %v %v", op, kx, ky)})
	}
	sg := kindSigned(kx)
	pick := func(s, u string) string {
		if sg {
			return s
		}
		return u
	}
	switch op {
	case token.ADD:
		return mkInt(kx, BVBin("bvadd", tx, ty))
	case token.SUB:
		return mkInt(kx, BVBin("bvsub", tx, ty))
	case token.MUL:
		return mkInt(kx, BVBin("bvmul", tx, ty))
	case token.QUO, token.REM:
		zero := Eq(ty, BVConst(ty.sort, 0))
		if i.branch(zero) {
			panic(runtimeErrorString("runtime error: integer divide by zero"))
		}
		if op == token.QUO {
			return mkInt(kx, BVBin(pick("bvsdiv", "bvudiv"), tx, ty))
		}
		return mkInt(kx, BVBin(pick("bvsrem", "bvurem"), tx, ty))
	case token.AND:
		return mkInt(kx, BVBin("bvand", tx, ty))
	case token.OR:
		return mkInt(kx, BVBin("bvor", tx, ty))
	case token.XOR:
		return mkInt(kx, BVBin("bvxor", tx, ty))
	case token.AND_NOT:
		return mkInt(kx, BVBin("bvand", tx, BVNot(ty)))
	case token.LSS:
		return mkBool(BVCmp(pick("bvslt", "bvult"), tx, ty))
	case token.LEQ:
		return mkBool(BVCmp(pick("bvsle", "bvule"), tx, ty))
	case token.GTR:
		return mkBool(BVCmp(pick("bvsgt", "bvugt"), tx, ty))
	case token.GEQ:
		return mkBool(BVCmp(pick("bvsge", "bvuge"), tx, ty))
	}
	panic(unsupported{fmt.Sprintf("symbolic binop %s", op)})
}

type runtimeErrorString string

func (e runtimeErrorString) Error() string { return string(e) }
func (e runtimeErrorString) RuntimeError() {}

func (i *interpreter) symShift(op token.Token, x, y value) value {
	kx, tx, okx := intTerm(x)
	ky, ty, oky := intTerm(y)
	if !okx || !oky {
		panic(unsupported{"symbolic shift on non-integers"})
	}
	if tx.sort == SInt || ty.sort == SInt {
		panic(unsupported{"shift in integer-encoding mode"})
	}
	if kindSigned(ky) {
		neg := BVCmp("bvslt", ty, BVConst(ty.sort, 0))
		if i.branch(neg) {
			panic(runtimeErrorString("runtime error: negative shift amount"))
		}
	}
	w := kindWidth(kx)
	// bring the count to width w, saturating at w
	var cnt *Term
	switch {
	case ty.sort == w:
		cnt = ty
	case ty.sort < w:
		cnt = ZeroExt(w, ty)
	default:
		big := BVCmp("bvuge", ty, BVConst(ty.sort, uint64(w)))
		cnt = Ite(big, BVConst(w, uint64(w)), Extract(int(w)-1, 0, ty))
	}
	switch op {
	case token.SHL:
		return mkInt(kx, BVBin("bvshl", tx, cnt))
	default:
		if kindSigned(kx) {
			return mkInt(kx, BVBin("bvashr", tx, cnt))
		}
		return mkInt(kx, BVBin("bvlshr", tx, cnt))
	}
}

// symEq builds the term for x == y at type t (values may be partly symbolic).
func (i *interpreter) symEq(t types.Type, x, y value) *Term {
	// strings (symbolic, enumerated or concrete) inside composite values: the string operators decide
	switch x.(type) {
	case symStr, enumStr, string:
		switch y.(type) {
		case symStr, enumStr, string:
			bt, ok := boolTerm(i.binop(token.EQL, t, x, y))
			if !ok {
				panic(unsupported{"string comparison did not yield a boolean"})
			}
			return bt
		}
	}
	switch xv := x.(type) {
	case symb, bool:
		tx, _ := boolTerm(x)
		ty, ok := boolTerm(y)
		if !ok {
			panic(unsupported{fmt.Sprintf("symEq bool vs %T", y)})
		}
		return Eq(tx, ty)
	case array:
		yv := y.(array)
		var tElt types.Type
		if t != nil {
			tElt = t.Underlying().(*types.Array).Elem()
		}
		var cs []*Term
		for j := range xv {
			cs = append(cs, i.symEq(tElt, xv[j], yv[j]))
		}
		return And(cs...)
	case structure:
		yv := y.(structure)
		var st *types.Struct
		if t != nil {
			st = t.Underlying().(*types.Struct)
		}
		var cs []*Term
		for j := range xv {
			var ft types.Type
			if st != nil {
				if st.Field(j).Name() == "_" {
					continue
				}
				ft = st.Field(j).Type()
			}
			cs = append(cs, i.symEq(ft, xv[j], yv[j]))
		}
		return And(cs...)
	case iface:
		yv, ok := y.(iface)
		if !ok {
			panic(unsupported{fmt.Sprintf("symEq iface vs %T", y)})
		}
		if !sameType(xv.t, yv.t) {
			return FalseT
		}
		if xv.t == nil {
			return TrueT
		}
		return i.symEq(xv.t, xv.v, yv.v)
	case opaqueStr:
		panic(unsupported{"comparison of opaque (symbolic-dependent) string: " + xv.desc})
	case decStr:
		if yd, ok := y.(decStr); ok {
			return Eq(xv.t, yd.t)
		}
		panic(unsupported{"comparison of a decimal token with a string"})
	}
	if _, ok := y.(decStr); ok {
		panic(unsupported{"comparison of a decimal token with a string"})
	}
	if _, ok := y.(opaqueStr); ok {
		panic(unsupported{"comparison of opaque (symbolic-dependent) string"})
	}
	if _, tx, ok := intTerm(x); ok {
		_, ty, ok2 := intTerm(y)
		if !ok2 {
			panic(unsupported{fmt.Sprintf("symEq int vs %T", y)})
		}
		if tx.sort == SInt || ty.sort == SInt {
			return Eq(toIntSort(tx), toIntSort(ty))
		}
		return Eq(tx, ty)
	}
	// everything else is concrete
	return BoolConst(eqnil(t, x, y))
}

func symUnop(instr token.Token, x value) value {
	switch instr {
	case token.NOT:
		return mkBool(Not(x.(symb).t))
	case token.SUB:
		s := x.(symv)
		return mkInt(s.k, BVNeg(s.t))
	case token.XOR:
		s := x.(symv)
		return mkInt(s.k, BVNot(s.t))
	}
	panic(unsupported{fmt.Sprintf("symbolic unop %s", instr)})
}

// symConv converts a symbolic integer to the destination basic type.
func symConv(t_dst types.Type, x symv) value {
	b, ok := t_dst.Underlying().(*types.Basic)
	if !ok || b.Info()&types.IsInteger == 0 {
		if ok && b.Kind() == types.String {
			return opaqueStr{"string(rune) of symbolic"}
		}
		panic(unsupported{fmt.Sprintf("conversion of symbolic integer to %s", t_dst)})
	}
	dk := b.Kind()
	if x.t.sort == SInt {
		if kindWidth(dk) == 64 && kindSigned(dk) {
			return symv{dk, x.t}
		}
		panic(unsupported{"narrowing/unsigned conversion in integer-encoding mode"})
	}
	dw, sw := kindWidth(dk), kindWidth(x.k)
	switch {
	case dw == sw:
		return symv{dk, x.t}
	case dw < sw:
		return mkInt(dk, Extract(int(dw)-1, 0, x.t))
	default:
		if kindSigned(x.k) {
			return mkInt(dk, SignExt(dw, x.t))
		}
		return mkInt(dk, ZeroExt(dw, x.t))
	}
}

// ---- integer-encoding mode (mathematical Int terms with range side-conditions) ----
//
// Used for arithmetic kernels whose bit-vector encoding stalls the solvers
// (division by a symbolic divisor).  Every intermediate result gets the side
// condition "fits in int64", and division requires non-negative dividend and
// positive divisor (where Go's truncation and SMT-LIB's div/mod coincide).
// The side conditions are collected on the path and discharged as one
// obligation ("int-mode-faithful") whenever an assertion is decided and at the
// end of the path; if it cannot be discharged the path is inconclusive.

func toIntSort(t *Term) *Term {
	if t.sort == SInt {
		return t
	}
	if t.isConst() && t.sort > 0 {
		return IntConst(signExt64(t.sort, t.val))
	}
	panic(unsupported{"mixing bit-vector and integer-encoded symbolic values"})
}

var (
	minInt64T = App("-", SInt, IntConstBig("9223372036854775808"))
	maxInt64T = IntConstBig("9223372036854775807")
)

func IntConstBig(text string) *Term {
	t := newTerm("const", SInt)
	t.name = text
	return t
}

func (i *interpreter) intModeBinop(op token.Token, k types.BasicKind, tx, ty *Term) value {
	if !kindSigned(k) || kindWidth(k) != 64 {
		panic(unsupported{"integer-encoding mode supports int/int64 only"})
	}
	x, y := toIntSort(tx), toIntSort(ty)
	arith := func(smt string) value {
		r := App(smt, SInt, x, y)
		i.intSide = append(i.intSide, App("<=", SBool, minInt64T, r), App("<=", SBool, r, maxInt64T))
		return symv{k, r}
	}
	switch op {
	case token.ADD:
		return arith("+")
	case token.SUB:
		return arith("-")
	case token.MUL:
		return arith("*")
	case token.QUO, token.REM:
		zero := Eq(y, IntConst(0))
		if i.branch(zero) {
			panic(runtimeErrorString("runtime error: integer divide by zero"))
		}
		i.intSide = append(i.intSide, App(">=", SBool, x, IntConst(0)), App(">", SBool, y, IntConst(0)))
		if op == token.QUO {
			return symv{k, App("div", SInt, x, y)}
		}
		return symv{k, App("mod", SInt, x, y)}
	case token.LSS:
		return mkBool(App("<", SBool, x, y))
	case token.LEQ:
		return mkBool(App("<=", SBool, x, y))
	case token.GTR:
		return mkBool(App(">", SBool, x, y))
	case token.GEQ:
		return mkBool(App(">=", SBool, x, y))
	}
	panic(unsupported{fmt.Sprintf("operator %s in integer-encoding mode", op)})
}

// checkIntSide discharges the accumulated faithfulness side conditions.
func (i *interpreter) checkIntSide() {
	if len(i.intSide) == i.intSideChecked {
		return
	}
	conds := i.intSide[i.intSideChecked:]
	i.intSideChecked = len(i.intSide)
	i.assertHolds("int-mode-faithful", And(conds...))
}
