package symx

// A persistent SMT solver process spoken to in SMT-LIB2 over pipes.

import (
	"bufio"
	"fmt"
	"io"
	"os/exec"
	"sort"
	"strconv"
	"strings"
	"time"
)

type SolverStats struct {
	Queries   int
	Sat       int
	Unsat     int
	Unknown   int
	Errors    int
	Time      time.Duration
	MaxQuery  time.Duration
	Resets    int
	Bin       string
	TimeoutMs int
}

type Solver struct {
	bin       string
	args      []string
	cmd       *exec.Cmd
	in        io.WriteCloser
	out       *bufio.Reader
	defined   map[int64]bool
	declared  map[string]Sort
	preamble  []string // extra declarations (uninterpreted functions) re-sent after reset
	Stats     SolverStats
	timeoutMs int
	buf       strings.Builder
}

// NewSolver starts a solver. kind: "z3", "z3-new", "cvc5".
func NewSolver(kind string, timeoutMs int) (*Solver, error) {
	s := &Solver{timeoutMs: timeoutMs}
	switch kind {
	case "z3", "z3-new":
		s.bin = kind
		s.args = []string{"-in", fmt.Sprintf("-t:%d", timeoutMs)}
	case "cvc5":
		s.bin = "cvc5"
		s.args = []string{"--incremental", "--lang=smt2", fmt.Sprintf("--tlimit-per=%d", timeoutMs), "--produce-models"}
	default:
		return nil, fmt.Errorf("unknown solver %q", kind)
	}
	s.Stats.Bin = s.bin
	s.Stats.TimeoutMs = timeoutMs
	if err := s.start(); err != nil {
		return nil, err
	}
	return s, nil
}

func (s *Solver) start() error {
	s.cmd = exec.Command(s.bin, s.args...)
	in, err := s.cmd.StdinPipe()
	if err != nil {
		return err
	}
	out, err := s.cmd.StdoutPipe()
	if err != nil {
		return err
	}
	s.cmd.Stderr = s.cmd.Stdout
	if err := s.cmd.Start(); err != nil {
		return err
	}
	s.in = in
	s.out = bufio.NewReaderSize(out, 1<<16)
	s.defined = map[int64]bool{}
	s.declared = map[string]Sort{}
	if s.bin == "cvc5" {
		s.send("(set-logic ALL)\n")
	}
	s.send("(set-option :produce-models true)\n")
	for _, p := range s.preamble {
		s.send(p + "\n")
	}
	return nil
}

func (s *Solver) Close() {
	if s.cmd != nil {
		s.in.Close()
		s.cmd.Process.Kill()
		s.cmd.Wait()
		s.cmd = nil
	}
}

func (s *Solver) send(text string) {
	io.WriteString(s.in, text)
}

// AddPreamble registers a declaration that must survive resets (e.g. declare-fun of an UF).
func (s *Solver) AddPreamble(decl string) {
	for _, p := range s.preamble {
		if p == decl {
			return
		}
	}
	s.preamble = append(s.preamble, decl)
	s.send(decl + "\n")
}

// Reset forgets all assertions and definitions.
func (s *Solver) Reset() {
	s.Stats.Resets++
	if s.bin == "cvc5" {
		// cvc5's (reset) is fine too, but restarting keeps option handling simple.
		s.send("(reset)\n(set-logic ALL)\n(set-option :produce-models true)\n")
	} else {
		s.send("(reset)\n(set-option :produce-models true)\n")
	}
	s.defined = map[int64]bool{}
	s.declared = map[string]Sort{}
	for _, p := range s.preamble {
		s.send(p + "\n")
	}
}

// emitDefs writes declarations/definitions for every node of t not yet known.
func (s *Solver) emitDefs(t *Term, w *strings.Builder) {
	if t.isLeaf() {
		if t.op == "var" {
			if _, ok := s.declared[t.name]; !ok {
				s.declared[t.name] = t.sort
				fmt.Fprintf(w, "(declare-const %s %s)\n", t.name, t.sort)
			}
		}
		return
	}
	if s.defined[t.id] {
		return
	}
	for _, a := range t.args {
		s.emitDefs(a, w)
	}
	s.defined[t.id] = true
	fmt.Fprintf(w, "(define-fun t%d () %s %s)\n", t.id, t.sort, t.body())
}

// Assert adds t permanently (until Reset).
func (s *Solver) Assert(t *Term) {
	if t.IsTrue() {
		return
	}
	s.buf.Reset()
	s.emitDefs(t, &s.buf)
	fmt.Fprintf(&s.buf, "(assert %s)\n", t.leaf())
	s.send(s.buf.String())
}

// Check decides satisfiability of the asserted formulas plus extra (may be nil).
// If wantModel is non-nil and the answer is sat, values of those variables are returned.
func (s *Solver) Check(extra *Term, wantModel []*Term) (string, map[string]string) {
	start := time.Now()
	s.buf.Reset()
	if extra != nil {
		s.emitDefs(extra, &s.buf)
	}
	for _, v := range wantModel {
		s.emitDefs(v, &s.buf)
	}
	s.buf.WriteString("(push 1)\n")
	if extra != nil {
		fmt.Fprintf(&s.buf, "(assert %s)\n", extra.leaf())
	}
	s.buf.WriteString("(check-sat)\n(echo \"@chk\")\n")
	s.send(s.buf.String())
	lines := s.readUntil("@chk")
	res := "error"
	for _, l := range lines {
		l = strings.TrimSpace(l)
		if strings.Contains(l, "(error") {
			res = "error"
			break
		}
		if l == "sat" || l == "unsat" || l == "unknown" || l == "timeout" {
			res = l
		}
	}
	if res == "timeout" {
		res = "unknown"
	}
	var model map[string]string
	if res == "sat" && len(wantModel) > 0 {
		var sb strings.Builder
		sb.WriteString("(get-value (")
		for _, v := range wantModel {
			sb.WriteString(v.leaf())
			sb.WriteByte(' ')
		}
		sb.WriteString("))\n(echo \"@val\")\n")
		s.send(sb.String())
		ml := s.readUntil("@val")
		model = parseGetValue(strings.Join(ml, " "))
	}
	s.send("(pop 1)\n")
	d := time.Since(start)
	s.Stats.Queries++
	s.Stats.Time += d
	if d > s.Stats.MaxQuery {
		s.Stats.MaxQuery = d
	}
	switch res {
	case "sat":
		s.Stats.Sat++
	case "unsat":
		s.Stats.Unsat++
	case "unknown":
		s.Stats.Unknown++
	default:
		s.Stats.Errors++
	}
	return res, model
}

func (s *Solver) readUntil(marker string) []string {
	var lines []string
	for {
		l, err := s.out.ReadString('\n')
		if strings.Contains(l, marker) {
			return lines
		}
		if l != "" {
			lines = append(lines, l)
		}
		if err != nil {
			lines = append(lines, "(error \"solver died: "+err.Error()+"\")")
			// try to restart so later queries do not hang
			s.Close()
			s.start()
			return lines
		}
	}
}

// parseGetValue parses "((a #x01) (b true) (t12 #b0))" into a map.
func parseGetValue(text string) map[string]string {
	m := map[string]string{}
	text = strings.TrimSpace(text)
	// tokenise
	var toks []string
	cur := strings.Builder{}
	flush := func() {
		if cur.Len() > 0 {
			toks = append(toks, cur.String())
			cur.Reset()
		}
	}
	for _, r := range text {
		switch r {
		case '(', ')':
			flush()
			toks = append(toks, string(r))
		case ' ', '\n', '\t', '\r':
			flush()
		default:
			cur.WriteRune(r)
		}
	}
	flush()
	// expect ( ( name value ) ... ) where value may be parenthesised
	i := 0
	if i < len(toks) && toks[i] == "(" {
		i++
	}
	for i < len(toks) && toks[i] == "(" {
		i++
		if i >= len(toks) {
			break
		}
		name := toks[i]
		i++
		depth := 0
		var val []string
		for i < len(toks) {
			if toks[i] == "(" {
				depth++
			} else if toks[i] == ")" {
				if depth == 0 {
					break
				}
				depth--
			}
			val = append(val, toks[i])
			i++
		}
		i++ // closing paren of pair
		m[name] = strings.Join(val, " ")
	}
	return m
}

// ParseBV parses "#x.." / "#b.." / "(_ bvN w)" to uint64.
func ParseBV(s string) (uint64, bool) {
	s = strings.TrimSpace(s)
	var v uint64
	switch {
	case strings.HasPrefix(s, "#x"):
		_, err := fmt.Sscanf(s[2:], "%x", &v)
		return v, err == nil
	case strings.HasPrefix(s, "#b"):
		_, err := fmt.Sscanf(s[2:], "%b", &v)
		return v, err == nil
	case strings.HasPrefix(s, "( _ bv"):
		_, err := fmt.Sscanf(s[6:], "%d", &v)
		return v, err == nil
	case s == "true":
		return 1, true
	case s == "false":
		return 0, true
	}
	if n, err := strconv.ParseInt(s, 10, 64); err == nil {
		return uint64(n), true
	}
	if strings.HasPrefix(s, "( - ") {
		if n, err := strconv.ParseInt(strings.TrimSuffix(strings.TrimSpace(s[4:]), ")"), 10, 64); err == nil {
			return uint64(-n), true
		}
	}
	return 0, false
}

// Script renders a standalone SMT-LIB2 script asserting all given terms.
func Script(asserts []*Term, preamble []string) string {
	var sb strings.Builder
	sb.WriteString("(set-logic ALL)\n")
	for _, p := range preamble {
		sb.WriteString(p + "\n")
	}
	defined := map[int64]bool{}
	declared := map[string]bool{}
	var rec func(t *Term)
	rec = func(t *Term) {
		if t.isLeaf() {
			if t.op == "var" && !declared[t.name] {
				declared[t.name] = true
				fmt.Fprintf(&sb, "(declare-const %s %s)\n", t.name, t.sort)
			}
			return
		}
		if defined[t.id] {
			return
		}
		for _, a := range t.args {
			rec(a)
		}
		defined[t.id] = true
		fmt.Fprintf(&sb, "(define-fun t%d () %s %s)\n", t.id, t.sort, t.body())
	}
	for _, a := range asserts {
		rec(a)
		fmt.Fprintf(&sb, "(assert %s)\n", a.leaf())
	}
	sb.WriteString("(check-sat)\n")
	return sb.String()
}

// RunScript runs a standalone script on the given solver binary (one-shot).
func RunScript(kind string, script string, timeoutMs int) string {
	var cmd *exec.Cmd
	switch kind {
	case "cvc5":
		cmd = exec.Command("cvc5", "--lang=smt2", fmt.Sprintf("--tlimit=%d", timeoutMs))
	default:
		cmd = exec.Command(kind, "-in", fmt.Sprintf("-T:%d", (timeoutMs+999)/1000))
	}
	cmd.Stdin = strings.NewReader(script)
	out, _ := cmd.CombinedOutput()
	text := string(out)
	if strings.Contains(text, "(error") {
		return "error"
	}
	for _, l := range strings.Split(text, "\n") {
		l = strings.TrimSpace(l)
		if l == "sat" || l == "unsat" || l == "unknown" {
			return l
		}
	}
	return "unknown"
}

func sortedKeys(m map[string]string) []string {
	ks := make([]string, 0, len(m))
	for k := range m {
		ks = append(ks, k)
	}
	sort.Strings(ks)
	return ks
}
