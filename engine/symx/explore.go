package symx

// Program loading, the stateless-DFS explorer and its workers.

import (
	"fmt"
	"go/types"
	"os"
	"path/filepath"
	"sort"
	"strings"
	"sync"
	"time"

	"golang.org/x/tools/go/packages"
	"golang.org/x/tools/go/ssa"
	"golang.org/x/tools/go/ssa/ssautil"
)

type Program struct {
	Prog               *ssa.Program
	Pkgs               []*packages.Package
	sizes              types.Sizes
	runtimeErrorString types.Type
	errorStringPtr     types.Type
	wrapErrorPtr       types.Type
	valueCtxPtr        types.Type
	nopFunc            value
	hooks              map[string]hookFn
	globalInit         map[string]func(i *interpreter, cell *value)
	initAllow          map[string]bool
	parkForever        map[string]bool
	LoadTime           time.Duration
	BuildTime          time.Duration
	ModulePath         string
	badgerGlobals      map[string]*ssa.Global
}

type nativeFunc struct {
	name string
	f    func(i *interpreter, args []value) value
}

// Load type-checks and builds SSA for the given package patterns of the
// repository at dir, with overlay files (absolute path -> content).
func Load(dir string, overlay map[string][]byte, patterns []string) (*Program, error) {
	t0 := time.Now()
	cfg := &packages.Config{
		Mode:    packages.LoadAllSyntax,
		Dir:     dir,
		Overlay: overlay,
		Env:     append(os.Environ(), "GOFLAGS=-mod=mod", "GOPROXY=off", "GOSUMDB=off", "GOTOOLCHAIN=local", "CGO_ENABLED=1"),
	}
	pkgs, err := packages.Load(cfg, patterns...)
	if err != nil {
		return nil, err
	}
	var errs []string
	packages.Visit(pkgs, nil, func(p *packages.Package) {
		for _, e := range p.Errors {
			errs = append(errs, e.Error())
		}
	})
	if len(errs) > 0 {
		if len(errs) > 10 {
			errs = errs[:10]
		}
		return nil, fmt.Errorf("package errors: %s", strings.Join(errs, "; "))
	}
	t1 := time.Now()
	prog, _ := ssautil.AllPackages(pkgs, ssa.InstantiateGenerics|ssa.SanityCheckFunctions&0)
	prog.Build()
	P := &Program{Prog: prog, Pkgs: pkgs, LoadTime: t1.Sub(t0), BuildTime: time.Since(t1)}
	P.sizes = types.SizesFor("gc", "amd64")
	rt := prog.ImportedPackage("runtime")
	if rt == nil {
		return nil, fmt.Errorf("runtime package not loaded")
	}
	P.runtimeErrorString = rt.Type("errorString").Object().Type()
	if ep := prog.ImportedPackage("errors"); ep != nil {
		P.errorStringPtr = types.NewPointer(ep.Type("errorString").Object().Type())
	}
	if fp := prog.ImportedPackage("fmt"); fp != nil {
		P.wrapErrorPtr = types.NewPointer(fp.Type("wrapError").Object().Type())
	}
	if cp := prog.ImportedPackage("context"); cp != nil {
		P.valueCtxPtr = types.NewPointer(cp.Type("valueCtx").Object().Type())
	}
	P.nopFunc = &nativeFunc{name: "nop", f: func(i *interpreter, args []value) value { return nil }}
	P.hooks = baseHooks()
	P.globalInit = map[string]func(i *interpreter, cell *value){}
	P.initAllow = map[string]bool{"encoding/base64": true, "encoding/pem": true, "encoding/hex": true}
	P.parkForever = map[string]bool{}
	addIntrinsics(P)
	addBadgerModel(P)
	addSSZModel(P)
	addGobModel(P)
	addStringModels(P)
	addSymStrings(P)
	addBLSModel(P)
	addWalletModel(P)
	addGRPCModel(P)
	return P, nil
}

// FindFunc returns the package-level function pkgpath.name.
func (P *Program) FindFunc(pkgPath, name string) *ssa.Function {
	for _, p := range P.Prog.AllPackages() {
		if p.Pkg.Path() == pkgPath {
			return p.Func(name)
		}
	}
	return nil
}

// ---- explorer ----

type AssertStat struct {
	Harness      string `json:"harness"`
	ID           string `json:"id"`
	Evaluated    int    `json:"evaluated"`  // times reached on a path
	Discharged   int    `json:"discharged"` // unsat (or concretely true)
	Trivial      int    `json:"trivially_true"`
	Violated     int    `json:"violated"`
	Inconclusive int    `json:"inconclusive"`
}

type WorkerStats struct {
	Runs          int
	Completed     int
	Infeasible    int
	Steps         int64
	Branches      int64
	FeasQueries   int
	FeasUnknown   int
	AssertQueries int
	Preemptions   int
}

type workItem struct {
	harness string
	fn      *ssa.Function
	prefix  []decision
}

type Options struct {
	Workers      int
	Seed         int64
	MaxSteps     int64
	Solver       string
	TimeoutMs    int
	OpenClasses  map[string]bool
	DumpDir      string // deciding queries are written here when non-empty
	MaxDump      int
	MaxPaths     int64 // safety valve; exceeding it is reported as inconclusive
	Trace        bool
	MaxViolation int
}

type Explorer struct {
	P           *Program
	opt         Options
	openClasses map[string]bool

	mu          sync.Mutex
	cond        *sync.Cond
	queue       []workItem
	idle        int
	done        bool
	Violations  []Violation
	Asserts     map[string]*AssertStat
	Reached     map[string]int
	Inconcl     []string
	Crashes     map[string]int
	Funcs       map[string]int
	Outs        [][]string
	Stats       WorkerStats
	Solver      SolverStats
	PathsByHarn map[string]int
	DoneByHarn  map[string]int // paths that ran to the end of the harness
	dumped      int
	Samples     []map[string]string
}

func NewExplorer(P *Program, opt Options) *Explorer {
	if opt.Workers <= 0 {
		opt.Workers = 1
	}
	if opt.MaxSteps <= 0 {
		opt.MaxSteps = 5_000_000
	}
	if opt.Solver == "" {
		opt.Solver = "z3"
	}
	if opt.TimeoutMs <= 0 {
		opt.TimeoutMs = 60000
	}
	if opt.MaxViolation <= 0 {
		opt.MaxViolation = 50
	}
	e := &Explorer{P: P, opt: opt, openClasses: opt.OpenClasses,
		Asserts: map[string]*AssertStat{}, Reached: map[string]int{}, Crashes: map[string]int{},
		Funcs: map[string]int{}, PathsByHarn: map[string]int{}, DoneByHarn: map[string]int{}}
	if e.openClasses == nil {
		e.openClasses = map[string]bool{}
	}
	e.cond = sync.NewCond(&e.mu)
	return e
}

// Add queues a harness function for exploration.
func (e *Explorer) Add(name string, fn *ssa.Function) {
	e.queue = append(e.queue, workItem{harness: name, fn: fn})
}

func (e *Explorer) Run() {
	var wg sync.WaitGroup
	for k := 0; k < e.opt.Workers; k++ {
		wg.Add(1)
		go func(k int) {
			defer wg.Done()
			w := &Worker{exp: e, seed: e.opt.Seed, maxSteps: e.opt.MaxSteps, id: k, funcs: map[string]int{}}
			s, err := NewSolver(e.opt.Solver, e.opt.TimeoutMs)
			if err != nil {
				e.mu.Lock()
				e.Inconcl = append(e.Inconcl, "cannot start solver: "+err.Error())
				e.mu.Unlock()
				return
			}
			w.solver = s
			defer s.Close()
			w.loop()
			e.mu.Lock()
			e.Stats.Runs += w.stats.Runs
			e.Stats.Completed += w.stats.Completed
			e.Stats.Infeasible += w.stats.Infeasible
			e.Stats.Steps += w.stats.Steps
			e.Stats.Branches += w.stats.Branches
			e.Stats.FeasQueries += w.stats.FeasQueries
			e.Stats.FeasUnknown += w.stats.FeasUnknown
			e.Stats.AssertQueries += w.stats.AssertQueries
			e.Solver.Queries += s.Stats.Queries
			e.Solver.Sat += s.Stats.Sat
			e.Solver.Unsat += s.Stats.Unsat
			e.Solver.Unknown += s.Stats.Unknown
			e.Solver.Errors += s.Stats.Errors
			e.Solver.Time += s.Stats.Time
			if s.Stats.MaxQuery > e.Solver.MaxQuery {
				e.Solver.MaxQuery = s.Stats.MaxQuery
			}
			e.Solver.Resets += s.Stats.Resets
			e.Solver.Bin = s.Stats.Bin
			e.Solver.TimeoutMs = s.Stats.TimeoutMs
			for n, c := range w.funcs {
				e.Funcs[n] += c
			}
			e.mu.Unlock()
		}(k)
	}
	wg.Wait()
	if e.Solver.Errors > 0 {
		e.Inconcl = append(e.Inconcl, fmt.Sprintf("%d solver errors", e.Solver.Errors))
	}
}

// take blocks until a work item is available or everything is done.
func (e *Explorer) take() (workItem, bool) {
	e.mu.Lock()
	defer e.mu.Unlock()
	for {
		if len(e.queue) > 0 {
			it := e.queue[len(e.queue)-1]
			e.queue = e.queue[:len(e.queue)-1]
			return it, true
		}
		e.idle++
		if e.idle == e.opt.Workers {
			e.done = true
			e.cond.Broadcast()
			return workItem{}, false
		}
		e.cond.Wait()
		e.idle--
		if e.done {
			e.idle++
			return workItem{}, false
		}
	}
}

func (e *Explorer) wantWork() bool {
	e.mu.Lock()
	defer e.mu.Unlock()
	return e.idle > 0 && len(e.queue) < e.idle
}

func (e *Explorer) give(items []workItem) {
	e.mu.Lock()
	e.queue = append(e.queue, items...)
	e.mu.Unlock()
	e.cond.Broadcast()
}

// Assignment is a concrete valuation of a harness's inputs (replay / self-check).
type Assignment struct {
	Harness string            `json:"harness"`
	Model   map[string]string `json:"model"`
	Chooses map[string]int    `json:"chooses"`
	Faults  []string          `json:"faults,omitempty"`
	Crashes []string          `json:"crashes,omitempty"`
	Tag     string            `json:"tag,omitempty"`
}

// ConcreteResult is what one concrete execution in the engine produced.
type ConcreteResult struct {
	Outcome string   `json:"outcome"`
	Detail  string   `json:"detail,omitempty"`
	Outs    []string `json:"outs"`
	Fails   []string `json:"fails"`
}

// RunConcrete executes harness functions under concrete assignments (no solver decisions).
func (e *Explorer) RunConcrete(find func(name string) *ssa.Function, list []Assignment) []ConcreteResult {
	w := &Worker{exp: e, maxSteps: e.opt.MaxSteps, funcs: map[string]int{}}
	s, err := NewSolver(e.opt.Solver, e.opt.TimeoutMs)
	if err != nil {
		return nil
	}
	defer s.Close()
	w.solver = s
	var out []ConcreteResult
	for k := range list {
		a := list[k]
		fn := find(a.Harness)
		if fn == nil {
			out = append(out, ConcreteResult{Outcome: "error", Detail: "unknown harness " + a.Harness})
			continue
		}
		w.item = workItem{harness: a.Harness, fn: fn}
		w.decisions = nil
		w.concrete = &a
		r := w.runOnce()
		out = append(out, r)
	}
	return out
}

type Worker struct {
	concrete  *Assignment
	exp       *Explorer
	id        int
	solver    *Solver
	decisions []*decision
	seed      int64
	maxSteps  int64
	stats     WorkerStats
	funcs     map[string]int
	item      workItem
}

func (w *Worker) loop() {
	for {
		it, ok := w.exp.take()
		if !ok {
			return
		}
		w.item = it
		w.decisions = w.decisions[:0]
		for k := range it.prefix {
			d := it.prefix[k]
			w.decisions = append(w.decisions, &decision{kind: d.kind, alts: []int{d.alts[d.idx]}, idx: 0, n: d.n})
		}
		base := len(it.prefix)
		for {
			w.runOnce()
			if w.exp.opt.MaxPaths > 0 {
				w.exp.mu.Lock()
				over := int64(w.exp.Stats.Runs)+int64(w.stats.Runs) > w.exp.opt.MaxPaths
				w.exp.mu.Unlock()
				if over {
					w.exp.noteInconcl("path limit exceeded")
					return
				}
			}
			// donate work if others are idle
			if w.exp.wantWork() {
				w.donate(base)
			}
			// backtrack
			for len(w.decisions) > base && w.decisions[len(w.decisions)-1].idx == len(w.decisions[len(w.decisions)-1].alts)-1 {
				w.decisions = w.decisions[:len(w.decisions)-1]
			}
			if len(w.decisions) == base {
				break
			}
			w.decisions[len(w.decisions)-1].idx++
		}
	}
}

// donate splits off the untried alternatives of the shallowest open decision.
func (w *Worker) donate(base int) {
	for j := base; j < len(w.decisions); j++ {
		d := w.decisions[j]
		if d.idx < len(d.alts)-1 {
			var items []workItem
			for a := d.idx + 1; a < len(d.alts); a++ {
				pre := make([]decision, 0, j+1)
				for _, p := range w.decisions[:j] {
					pre = append(pre, decision{kind: p.kind, alts: []int{p.alts[p.idx]}, n: p.n})
				}
				pre = append(pre, decision{kind: d.kind, alts: []int{d.alts[a]}, n: d.n})
				items = append(items, workItem{harness: w.item.harness, fn: w.item.fn, prefix: pre})
			}
			d.alts = d.alts[:d.idx+1]
			w.exp.give(items)
			return
		}
	}
}

func (e *Explorer) noteInconcl(msg string) {
	e.mu.Lock()
	defer e.mu.Unlock()
	for _, m := range e.Inconcl {
		if m == msg {
			return
		}
	}
	if len(e.Inconcl) < 200 {
		e.Inconcl = append(e.Inconcl, msg)
	}
}

func (w *Worker) noteFunc(fn *ssa.Function, name string) {
	w.funcs[name]++
}

func (w *Worker) stat(h, id string) *AssertStat {
	k := h + "/" + id
	s := w.exp.Asserts[k]
	if s == nil {
		s = &AssertStat{Harness: h, ID: id}
		w.exp.Asserts[k] = s
	}
	return s
}

func (w *Worker) noteAssert(h, id string) {
	w.exp.mu.Lock()
	w.stat(h, id).Evaluated++
	w.exp.mu.Unlock()
}

func (w *Worker) noteDischarged(h, id string, trivial bool) {
	w.exp.mu.Lock()
	s := w.stat(h, id)
	s.Discharged++
	if trivial {
		s.Trivial++
	}
	w.exp.mu.Unlock()
}

func (w *Worker) noteInconclusive(h, id, msg string) {
	w.exp.mu.Lock()
	w.stat(h, id).Inconclusive++
	w.exp.mu.Unlock()
	w.exp.noteInconcl(h + "/" + id + ": " + msg)
}

func (w *Worker) addViolation(v Violation) {
	w.exp.mu.Lock()
	defer w.exp.mu.Unlock()
	if v.Class == "" {
		w.stat(v.Harness, v.Assert).Violated++
	}
	// keep one witness per (harness, assert, class)
	n := 0
	for _, o := range w.exp.Violations {
		if o.Harness == v.Harness && o.Assert == v.Assert && o.Class == v.Class {
			n++
		}
	}
	if n < 3 && len(w.exp.Violations) < w.exp.opt.MaxViolation {
		w.exp.Violations = append(w.exp.Violations, v)
	}
}

func (w *Worker) dumpQuery(i *interpreter, id string, q *Term, res string) {
	e := w.exp
	if e.opt.DumpDir == "" {
		return
	}
	e.mu.Lock()
	if e.dumped >= e.opt.MaxDump {
		e.mu.Unlock()
		return
	}
	e.dumped++
	n := e.dumped
	e.mu.Unlock()
	asserts := append(append([]*Term{}, i.pc...), q)
	script := "; harness " + i.harness + " assert " + id + " expected " + res + "\n" + Script(asserts, w.solver.preamble)
	os.MkdirAll(e.opt.DumpDir, 0o755)
	os.WriteFile(filepath.Join(e.opt.DumpDir, fmt.Sprintf("q%04d-%s.smt2", n, sanitize(id))), []byte(script), 0o644)
}

func sanitize(s string) string {
	return strings.Map(func(r rune) rune {
		if (r >= 'a' && r <= 'z') || (r >= 'A' && r <= 'Z') || (r >= '0' && r <= '9') || r == '-' || r == '_' {
			return r
		}
		return '_'
	}, s)
}

func (w *Worker) newInterpreter() *interpreter {
	P := w.exp.P
	i := &interpreter{
		P:                  P,
		prog:               P.Prog,
		globals:            make(map[*ssa.Global]*value),
		inited:             make(map[*ssa.Package]bool),
		sizes:              P.sizes,
		runtimeErrorString: P.runtimeErrorString,
	}
	if w.exp.opt.Trace {
		i.mode = EnableTracing
	}
	i.w = w
	i.harness = w.item.harness
	i.varByName = map[string]*Term{}
	i.chooses = map[string]int{}
	i.chooseCnt = map[string]int{}
	i.classes = map[string]*Term{}
	i.zeroCells = map[string]*value{}
	i.side = map[interface{}]interface{}{}
	i.models = map[string]interface{}{}
	i.nameCnt = map[string]int{}
	i.initSched()
	return i
}

// runOnce executes the harness once along the current decision prefix.
func (w *Worker) runOnce() (cres ConcreteResult) {
	w.stats.Runs++
	w.solver.Reset()
	i := w.newInterpreter()
	outcome := "completed"
	detail := ""
	func() {
		defer func() {
			p := recover()
			if p == nil {
				return
			}
			if _, ok := p.(abortAll); ok && i.abortVal != nil {
				p = i.abortVal
			}
			switch p := p.(type) {
			case pathEnd:
				outcome, detail = "ended", p.reason
			case unsupported:
				outcome, detail = "unsupported", p.msg
			case budgetExceeded:
				outcome, detail = "budget", p.what
			case crashed:
				outcome, detail = "crash", p.msg
			case abortAll:
				outcome, detail = "unsupported", "abort without cause"
			default:
				outcome, detail = "crash", "panic in main goroutine: "+panicString(p)
			}
		}()
		call(i, nil, 0, w.item.fn, nil)
		i.checkIntSide()
	}()
	i.endRun()
	e := w.exp
	cres = ConcreteResult{Outcome: outcome, Detail: detail, Outs: i.outs, Fails: i.concFails}
	if w.concrete != nil {
		return cres
	}
	switch outcome {
	case "completed":
		w.stats.Completed++
	case "ended":
		if detail == "infeasible" || strings.HasPrefix(detail, "assume") {
			w.stats.Infeasible++
		} else {
			w.stats.Completed++
		}
	case "unsupported":
		e.noteInconcl(i.harness + ": unsupported: " + detail)
	case "budget":
		e.noteInconcl(i.harness + ": unwinding/step budget: " + detail)
	case "crash":
		if i.forbidCrash {
			res, model := w.solver.Check(nil, i.vars)
			if res == "sat" {
				v := i.mkViolation("no-crash", "", model)
				v.Note = detail
				w.noteAssert(i.harness, "no-crash")
				w.addViolation(v)
			} else {
				e.noteInconcl(i.harness + ": crash path with solver answer " + res + ": " + detail)
			}
		}
		e.mu.Lock()
		key := detail
		if len(key) > 160 {
			key = key[:160]
		}
		e.Crashes[i.harness+": "+key]++
		e.mu.Unlock()
	}
	e.mu.Lock()
	e.PathsByHarn[i.harness]++
	if outcome == "completed" {
		e.DoneByHarn[i.harness]++
	}
	for id, n := range i.reached {
		e.Reached[i.harness+"/"+id] += n
	}
	if i.forbidCrash && outcome != "crash" {
		s := w.stat(i.harness, "no-crash")
		s.Evaluated++
		s.Discharged++
	}
	if len(i.outs) > 0 && len(e.Outs) < 64 {
		e.Outs = append(e.Outs, i.outs)
	}
	e.mu.Unlock()
	// one sample per few paths: a satisfying assignment of the completed path
	if outcome == "completed" && (len(i.vars) > 0 || len(i.trace) > 0) {
		e.mu.Lock()
		n := e.PathsByHarn[i.harness]
		want := len(e.Samples) < 80 && (n == 1 || n == 5 || n == 23 || n == 57 || n == 101 || n == 499 || n == 2003)
		e.mu.Unlock()
		if want {
			model := map[string]string{}
			ok := true
			if len(i.vars) > 0 {
				var res string
				res, model = w.solver.Check(nil, i.vars)
				ok = res == "sat"
			}
			if ok {
				model["_harness"] = i.harness
				model["_decisions"] = strings.Join(i.trace, " ")
				e.mu.Lock()
				e.Samples = append(e.Samples, model)
				e.mu.Unlock()
			}
		}
	}
	return cres
}

// Summary helpers

func (e *Explorer) SortedAsserts() []*AssertStat {
	var out []*AssertStat
	for _, s := range e.Asserts {
		out = append(out, s)
	}
	sort.Slice(out, func(a, b int) bool {
		if out[a].Harness != out[b].Harness {
			return out[a].Harness < out[b].Harness
		}
		return out[a].ID < out[b].ID
	})
	return out
}

// ExportedNiladic lists exported functions without parameters or results of a package.
func (P *Program) ExportedNiladic(pkgPath string) []string {
	var out []string
	for _, p := range P.Prog.AllPackages() {
		if p.Pkg.Path() != pkgPath {
			continue
		}
		for name, m := range p.Members {
			if f, ok := m.(*ssa.Function); ok && f.Signature.Params().Len() == 0 && f.Signature.Results().Len() == 0 &&
				name[0] >= 'A' && name[0] <= 'Z' && f.Signature.Recv() == nil {
				out = append(out, name)
			}
		}
	}
	sort.Strings(out)
	return out
}
