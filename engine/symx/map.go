package symx

// Insertion-ordered hash map used for every Go map (the executor must be
// deterministic: a run is a pure function of its decision sequence).

import (
	"go/token"
	"go/types"
)

type hashable interface {
	hash(t types.Type) int
	eq(t types.Type, x interface{}) bool
}

type entry struct {
	key   value
	value value
	hash  int
	dead  bool
}

type hashmap struct {
	nsym    int // live entries whose key has symbolic parts (found by comparison, not by hash)
	keyType types.Type
	list    []*entry        // insertion order (dead entries are compacted lazily)
	table   map[int][]*entry // hash -> live entries
	length  int
}

// makeMap returns an empty initialized map of key type kt.
func makeMap(kt types.Type, reserve int64) value {
	return &hashmap{keyType: kt, table: make(map[int][]*entry)}
}

func (m *hashmap) find(k value) (*entry, int) {
	h := hash(m.keyType, m.keyType, k)
	for _, e := range m.table[h] {
		if !e.dead && equals(m.keyType, k, e.key) {
			return e, h
		}
	}
	return nil, h
}

func (m *hashmap) delete(k value) {
	if m == nil {
		return
	}
	e, h := m.find(k)
	if e == nil {
		return
	}
	e.dead = true
	b := m.table[h]
	for j := range b {
		if b[j] == e {
			m.table[h] = append(b[:j:j], b[j+1:]...)
			break
		}
	}
	m.length--
	if len(m.list) > 2*m.length+8 {
		live := m.list[:0:0]
		for _, e := range m.list {
			if !e.dead {
				live = append(live, e)
			}
		}
		m.list = live
	}
}

func (m *hashmap) lookup(k value) (value, bool) {
	if m == nil {
		return nil, false
	}
	e, _ := m.find(k)
	if e == nil {
		return nil, false
	}
	return e.value, true
}

func (m *hashmap) insert(k value, v value) {
	e, h := m.find(k)
	if e != nil {
		e.value = v
		return
	}
	e = &entry{key: k, value: v, hash: h}
	m.list = append(m.list, e)
	m.table[h] = append(m.table[h], e)
	m.length++
}

func (m *hashmap) len() int {
	if m != nil {
		return m.length
	}
	return 0
}

type hashmapIter struct {
	snap []*entry
	pos  int
}

func (m *hashmap) iterator() iter {
	if m == nil {
		return &hashmapIter{}
	}
	return &hashmapIter{snap: append([]*entry(nil), m.list...)}
}

func (it *hashmapIter) next() tuple {
	for it.pos < len(it.snap) {
		e := it.snap[it.pos]
		it.pos++
		if e.dead {
			continue
		}
		return []value{true, e.key, e.value}
	}
	return []value{false, nil, nil}
}

// symHash marks entries whose key has symbolic parts.
const symHash = -0x5eed

// findSym looks a key up by comparison (forking on symbolic equalities) when the key or some key in
// the map is not concrete.
func (i *interpreter) findSym(m *hashmap, k value) *entry {
	for _, e := range m.list {
		if e.dead {
			continue
		}
		if e.hash != symHash && !containsSym(k) {
			if equals(m.keyType, k, e.key) {
				return e
			}
			continue
		}
		if i.truth(i.binop(token.EQL, m.keyType, k, e.key)) {
			return e
		}
	}
	return nil
}

func (i *interpreter) mapLookup(m *hashmap, k value) (value, bool) {
	if m != nil && (m.nsym > 0 || containsSym(k)) {
		if e := i.findSym(m, k); e != nil {
			return e.value, true
		}
		return nil, false
	}
	return m.lookup(k)
}

func (i *interpreter) mapUpdate(m value, k, v value) {
	hm, ok := m.(*hashmap)
	if !ok || hm == nil {
		panic(runtimeErrorString("assignment to entry in nil map"))
	}
	if hm.nsym > 0 || containsSym(k) {
		if e := i.findSym(hm, k); e != nil {
			e.value = v
			return
		}
		if !containsSym(k) {
			hm.insert(k, v) // no equal key present: a new concrete entry
			return
		}
		hm.list = append(hm.list, &entry{key: k, value: v, hash: symHash})
		hm.length++
		hm.nsym++
		return
	}
	hm.insert(k, v)
}

func (i *interpreter) mapDelete(m *hashmap, k value) {
	if m != nil && (m.nsym > 0 || containsSym(k)) {
		e := i.findSym(m, k)
		if e == nil {
			return
		}
		if e.hash == symHash {
			e.dead = true
			m.length--
			m.nsym--
			return
		}
		m.delete(e.key)
		return
	}
	m.delete(k)
}
