package symx

// Symbolic strings of concrete length (symStr), strings drawn from a finite
// table (enumStr), and the symbolic execution of Go's regexp matcher over a
// symStr: the real pattern is compiled with regexp/syntax to the program Go's
// matcher runs, and that program is simulated position by position with one
// Boolean term per reachable instruction.

import (
	"fmt"
	"go/types"
	"regexp"
	"regexp/syntax"
	"strings"

	"golang.org/x/tools/go/ssa"
)

// symStr: a string whose bytes may be symbolic; the length is concrete.
type symStr struct{ bs []value }

// enumStr: one of the strings of table, selected by idx (8-bit).
type enumStr struct {
	idx   *Term
	table []string
}

func strBytes(v value) ([]value, bool) {
	switch s := v.(type) {
	case string:
		out := make([]value, len(s))
		for k := 0; k < len(s); k++ {
			out[k] = s[k]
		}
		return out, true
	case symStr:
		return s.bs, true
	}
	return nil, false
}

func mkStr(bs []value) value {
	conc := make([]byte, len(bs))
	for k, b := range bs {
		c, ok := b.(byte)
		if !ok {
			return symStr{bs}
		}
		conc[k] = c
	}
	return string(conc)
}

// byteIn builds the condition "byte b is in set".
func byteIn(b value, set *[128]bool) *Term {
	if c, ok := b.(byte); ok {
		return BoolConst(c < 128 && set[c])
	}
	_, t, _ := intTerm(b)
	var cs []*Term
	k := 0
	for k < 128 {
		if !set[k] {
			k++
			continue
		}
		lo := k
		for k < 128 && set[k] {
			k++
		}
		hi := k - 1
		if lo == hi {
			cs = append(cs, Eq(t, BVConst(8, uint64(lo))))
		} else {
			cs = append(cs, And(BVCmp("bvuge", t, BVConst(8, uint64(lo))), BVCmp("bvule", t, BVConst(8, uint64(hi)))))
		}
	}
	return Or(cs...)
}

// regexMatch returns the term "re.MatchString(s)" for a string of ASCII bytes.
func regexMatch(re *regexp.Regexp, bs []value) *Term {
	parsed, err := syntax.Parse(re.String(), syntax.Perl)
	if err != nil {
		panic(unsupported{"regex model: cannot re-parse " + re.String()})
	}
	prog, err := syntax.Compile(parsed.Simplify())
	if err != nil {
		panic(unsupported{"regex model: cannot compile " + re.String()})
	}
	n := len(bs)
	// per instruction: which ASCII bytes it accepts (asked of the real instruction)
	accept := make([]*[128]bool, len(prog.Inst))
	for pc := range prog.Inst {
		in := &prog.Inst[pc]
		switch in.Op {
		case syntax.InstRune, syntax.InstRune1, syntax.InstRuneAny, syntax.InstRuneAnyNotNL:
			var set [128]bool
			for c := 0; c < 128; c++ {
				set[c] = in.MatchRune(rune(c))
			}
			accept[pc] = &set
		}
	}
	// cond[pc] at the current position
	cur := make([]*Term, len(prog.Inst))
	var matched []*Term
	// addThread follows empty transitions from pc at position pos under condition c
	var add func(set []*Term, pc int, pos int, c *Term, depth int)
	add = func(set []*Term, pc int, pos int, c *Term, depth int) {
		if c.IsFalse() || depth > 10000 {
			return
		}
		in := &prog.Inst[pc]
		switch in.Op {
		case syntax.InstAlt, syntax.InstAltMatch:
			add(set, int(in.Out), pos, c, depth+1)
			add(set, int(in.Arg), pos, c, depth+1)
		case syntax.InstCapture, syntax.InstNop:
			add(set, int(in.Out), pos, c, depth+1)
		case syntax.InstEmptyWidth:
			need := syntax.EmptyOp(in.Arg)
			var have syntax.EmptyOp
			// text-level assertions are concrete because the length is; line/word
			// assertions depend on neighbouring bytes and are not modelled
			if need&^(syntax.EmptyBeginText|syntax.EmptyEndText) != 0 {
				panic(unsupported{"regex model: line/word-boundary assertion in " + re.String()})
			}
			if pos == 0 {
				have |= syntax.EmptyBeginText
			}
			if pos == n {
				have |= syntax.EmptyEndText
			}
			if need&^have == 0 {
				add(set, int(in.Out), pos, c, depth+1)
			}
		case syntax.InstFail:
		default: // rune instructions and match
			if set[pc] == nil {
				set[pc] = c
			} else if set[pc] != c {
				set[pc] = Or(set[pc], c)
			}
		}
	}
	for pos := 0; pos <= n; pos++ {
		// unanchored search: a new thread may start at every position
		add(cur, prog.Start, pos, TrueT, 0)
		next := make([]*Term, len(prog.Inst))
		for pc, c := range cur {
			if c == nil {
				continue
			}
			in := &prog.Inst[pc]
			if in.Op == syntax.InstMatch {
				matched = append(matched, c)
				continue
			}
			if pos < n && accept[pc] != nil {
				add(next, int(in.Out), pos+1, And(c, byteIn(bs[pos], accept[pc])), 0)
			}
		}
		cur = next
	}
	return Or(matched...)
}

func addSymStrings(P *Program) {
	h := P.hooks
	reg := func(name string, f hookFn) { h[vsymPkg+"."+name] = f }
	// String(name, n): n symbolic ASCII bytes (1..127)
	reg("String", func(i *interpreter, fr *frame, fn *ssa.Function, args []value) value {
		name := goString(args[0], "vsym name")
		n := int(i.concreteInt64(args[1], "String length"))
		bs := make([]value, n)
		for k := range bs {
			b := i.symInt(fmt.Sprintf("%s_%d", name, k), types.Uint8)
			if s, ok := b.(symv); ok {
				i.assume(And(BVCmp("bvuge", s.t, BVConst(8, 1)), BVCmp("bvule", s.t, BVConst(8, 127))))
			}
			bs[k] = b
		}
		return mkStr(bs)
	})
	reg("OneOf", func(i *interpreter, fr *frame, fn *ssa.Function, args []value) value {
		name := goString(args[0], "vsym name")
		var table []string
		for _, e := range args[1].([]value) {
			table = append(table, goString(e, "OneOf table"))
		}
		if len(table) == 0 {
			panic(pathEnd{"OneOf of nothing"})
		}
		v := i.symInt(name, types.Uint8)
		s, ok := v.(symv)
		if !ok {
			k := int(v.(uint8))
			if k >= len(table) {
				k = 0
			}
			return table[k]
		}
		i.assume(BVCmp("bvult", s.t, BVConst(8, uint64(len(table)))))
		return enumStr{idx: s.t, table: table}
	})
	reg("EqualFold", func(i *interpreter, fr *frame, fn *ssa.Function, args []value) value {
		return strEqualFold(i, args[0], args[1])
	})
	reg("IteBool", func(i *interpreter, fr *frame, fn *ssa.Function, args []value) value {
		c, _ := boolTerm(args[0])
		a, _ := boolTerm(args[1])
		b, _ := boolTerm(args[2])
		return mkBool(Ite(c, a, b))
	})
	h["strings.EqualFold"] = func(i *interpreter, fr *frame, fn *ssa.Function, args []value) value {
		return strEqualFold(i, args[0], args[1])
	}
	prevMatch := h["(*regexp.Regexp).MatchString"]
	h["(*regexp.Regexp).MatchString"] = func(i *interpreter, fr *frame, fn *ssa.Function, args []value) value {
		if s, ok := args[1].(symStr); ok {
			re := (*args[0].(*value)).(nativeHandle).v.(*regexp.Regexp)
			return mkBool(regexMatch(re, s.bs))
		}
		return prevMatch(i, fr, fn, args)
	}
	prevIndex := h["strings.Index"]
	h["strings.Index"] = func(i *interpreter, fr *frame, fn *ssa.Function, args []value) value {
		s, ok := args[0].(symStr)
		if !ok {
			return prevIndex(i, fr, fn, args)
		}
		sub := goString(args[1], "strings.Index needle")
		if len(sub) != 1 {
			panic(unsupported{"strings.Index on a symbolic string with a needle longer than one byte"})
		}
		for k, b := range s.bs {
			t := i.symEq(nil, b, sub[0])
			if i.branch(t) {
				return k
			}
		}
		return -1
	}
}

func strEqualFold(i *interpreter, a, b value) value {
	if e, ok := b.(enumStr); ok {
		a, b = e, a
	}
	if e, ok := a.(enumStr); ok {
		other := goString(b, "EqualFold with enumerated string")
		var cs []*Term
		for k, s := range e.table {
			if strings.EqualFold(s, other) {
				cs = append(cs, Eq(e.idx, BVConst(8, uint64(k))))
			}
		}
		return mkBool(Or(cs...))
	}
	return strings.EqualFold(goString(a, "EqualFold"), goString(b, "EqualFold"))
}
