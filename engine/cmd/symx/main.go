// Command symx explores harness functions of a harness package symbolically
// against the current working tree of the repository and writes a JSON result.
package main

import (
	"encoding/json"
	"flag"
	"fmt"
	"os"
	"path/filepath"
	"runtime"
	"sort"
	"strings"
	"time"

	"golang.org/x/tools/go/ssa"

	"verif/engine/symx"
)

type Result struct {
	Package      string               `json:"package"`
	Harnesses    []string             `json:"harnesses"`
	LoadS        float64              `json:"load_s"`
	BuildS       float64              `json:"ssa_build_s"`
	ExploreS     float64              `json:"explore_s"`
	Paths        int                  `json:"paths"`
	Completed    int                  `json:"paths_completed"`
	Infeasible   int                  `json:"paths_infeasible"`
	Steps        int64                `json:"ssa_instructions"`
	Branches     int64                `json:"symbolic_branches"`
	FeasQueries  int                  `json:"feasibility_queries"`
	FeasUnknown  int                  `json:"feasibility_unknown"`
	AssertQ      int                  `json:"assert_queries"`
	Solver       map[string]any       `json:"solver"`
	Asserts      []*symx.AssertStat   `json:"asserts"`
	Reached      map[string]int       `json:"reached"`
	Violations   []symx.Violation     `json:"violations"`
	Inconclusive []string             `json:"inconclusive"`
	Crashes      map[string]int       `json:"crash_observations"`
	Funcs        map[string]int       `json:"functions_encoded"`
	PathsByHarn  map[string]int       `json:"paths_by_harness"`
	DoneByHarn   map[string]int       `json:"completed_by_harness"`
	Samples      []map[string]string  `json:"samples"`
	Outs         [][]string           `json:"outs,omitempty"`
	Error        string               `json:"error,omitempty"`
}

func main() {
	repo := flag.String("repo", "/repo", "repository root")
	hdir := flag.String("harness-dir", "/verif/harness", "directory holding harness packages")
	pkg := flag.String("pkg", "", "harness package (directory name under harness-dir)")
	funcs := flag.String("funcs", "", "comma-separated harness functions (default: all exported niladic functions)")
	extra := flag.String("extra-pkgs", "", "comma-separated additional overlay packages (directory names under harness-dir)")
	workers := flag.Int("workers", runtime.NumCPU(), "parallel workers")
	seed := flag.Int64("seed", 0, "VERIF_SEED")
	out := flag.String("out", "", "result JSON path (default stdout)")
	solver := flag.String("solver", "z3", "z3 | z3-new | cvc5")
	timeout := flag.Int("timeout-ms", 60000, "per-query solver timeout")
	maxSteps := flag.Int64("max-steps", 5_000_000, "per-path instruction budget")
	maxPaths := flag.Int64("max-paths", 0, "stop (inconclusive) after this many paths")
	open := flag.String("open-classes", "", "comma-separated known-finding classes that are open")
	dump := flag.String("dump-dir", "", "write deciding queries here")
	maxDump := flag.Int("max-dump", 40, "maximum number of dumped queries")
	trace := flag.Bool("trace", false, "trace instructions")
	concrete := flag.String("concrete", "", "JSON list of assignments: run each concretely in the engine and report outs/fails")
	asMain := flag.Bool("as-main", false, "the harness package is 'package main': overlay its files into the repository root")
	inPkg := flag.String("in-pkg", "", "overlay the harness files into this package directory of the repository (in-package harness)")
	pkgOverlay := flag.String("pkg-overlay", "", "extra overlays: comma-separated repoRelPath=absFile")
	flag.Parse()

	res := &Result{Package: *pkg}
	fail := func(err error) {
		res.Error = err.Error()
		emit(res, *out)
		os.Exit(3)
	}
	overlay := map[string][]byte{}
	addDir := func(name string) error {
		ents, err := os.ReadDir(filepath.Join(*hdir, name))
		if err != nil {
			return err
		}
		for _, e := range ents {
			n := e.Name()
			if !strings.HasSuffix(n, ".go") || strings.HasSuffix(n, "_native.go") || strings.HasSuffix(n, "_test.go") {
				continue
			}
			b, err := os.ReadFile(filepath.Join(*hdir, name, n))
			if err != nil {
				return err
			}
			overlay[filepath.Join(*repo, "zzverif", name, n)] = b
		}
		return nil
	}
	if err := addDir("vsym"); err != nil {
		fail(err)
	}
	patterns := []string{"./zzverif/" + *pkg}
	if *asMain {
		*inPkg = "."
	}
	if *inPkg != "" {
		ents, err := os.ReadDir(filepath.Join(*hdir, *pkg))
		if err != nil {
			fail(err)
		}
		for _, e := range ents {
			n := e.Name()
			if !strings.HasSuffix(n, ".go") || strings.HasSuffix(n, "_test.go") {
				continue
			}
			b, err := os.ReadFile(filepath.Join(*hdir, *pkg, n))
			if err != nil {
				fail(err)
			}
			overlay[filepath.Join(*repo, *inPkg, "zz_"+*pkg+"_"+n)] = b
		}
		patterns = []string{"./" + *inPkg}
	} else if err := addDir(*pkg); err != nil {
		fail(err)
	}
	if *extra != "" {
		for _, e := range strings.Split(*extra, ",") {
			if err := addDir(e); err != nil {
				fail(err)
			}
			patterns = append(patterns, "./zzverif/"+e)
		}
	}
	if *pkgOverlay != "" {
		for _, kv := range strings.Split(*pkgOverlay, ",") {
			p := strings.SplitN(kv, "=", 2)
			b, err := os.ReadFile(p[1])
			if err != nil {
				fail(err)
			}
			overlay[filepath.Join(*repo, p[0])] = b
		}
	}
	P, err := symx.Load(*repo, overlay, patterns)
	if err != nil {
		fail(err)
	}
	res.LoadS = P.LoadTime.Seconds()
	res.BuildS = P.BuildTime.Seconds()

	pkgPath := "github.com/attestantio/dirk/zzverif/" + *pkg
	if *inPkg == "." {
		pkgPath = "github.com/attestantio/dirk"
	} else if *inPkg != "" {
		pkgPath = "github.com/attestantio/dirk/" + *inPkg
	}
	var names []string
	if *funcs != "" {
		names = strings.Split(*funcs, ",")
	} else {
		names = P.ExportedNiladic(pkgPath)
	}
	sort.Strings(names)
	opt := symx.Options{Workers: *workers, Seed: *seed, MaxSteps: *maxSteps, Solver: *solver, TimeoutMs: *timeout,
		DumpDir: *dump, MaxDump: *maxDump, MaxPaths: *maxPaths, Trace: *trace, OpenClasses: map[string]bool{}}
	for _, c := range strings.Split(*open, ",") {
		if c != "" {
			opt.OpenClasses[c] = true
		}
	}
	ex := symx.NewExplorer(P, opt)
	if *concrete != "" {
		raw, err := os.ReadFile(*concrete)
		if err != nil {
			fail(err)
		}
		var list []symx.Assignment
		if err := json.Unmarshal(raw, &list); err != nil {
			fail(err)
		}
		rs := ex.RunConcrete(func(n string) *ssa.Function { return P.FindFunc(pkgPath, n) }, list)
		b, _ := json.MarshalIndent(rs, "", " ")
		if *out == "" {
			os.Stdout.Write(b)
		} else {
			os.WriteFile(*out, b, 0o644)
		}
		return
	}
	for _, n := range names {
		fn := P.FindFunc(pkgPath, n)
		if fn == nil {
			fail(fmt.Errorf("harness function %s.%s not found", pkgPath, n))
		}
		ex.Add(n, fn)
		res.Harnesses = append(res.Harnesses, n)
	}
	t0 := time.Now()
	ex.Run()
	res.ExploreS = time.Since(t0).Seconds()
	res.Paths = ex.Stats.Runs
	res.Completed = ex.Stats.Completed
	res.Infeasible = ex.Stats.Infeasible
	res.Steps = ex.Stats.Steps
	res.Branches = ex.Stats.Branches
	res.FeasQueries = ex.Stats.FeasQueries
	res.FeasUnknown = ex.Stats.FeasUnknown
	res.AssertQ = ex.Stats.AssertQueries
	res.Solver = map[string]any{"bin": ex.Solver.Bin, "queries": ex.Solver.Queries, "sat": ex.Solver.Sat, "unsat": ex.Solver.Unsat,
		"unknown": ex.Solver.Unknown, "errors": ex.Solver.Errors, "time_s": ex.Solver.Time.Seconds(), "max_query_s": ex.Solver.MaxQuery.Seconds(),
		"timeout_ms": ex.Solver.TimeoutMs}
	res.Asserts = ex.SortedAsserts()
	res.Reached = ex.Reached
	res.Violations = ex.Violations
	res.Inconclusive = ex.Inconcl
	res.Crashes = ex.Crashes
	res.Funcs = map[string]int{}
	for n, c := range ex.Funcs {
		if strings.Contains(n, "attestantio/dirk") && !strings.Contains(n, "zzverif") {
			res.Funcs[n] = c
		}
	}
	res.PathsByHarn = ex.PathsByHarn
	res.DoneByHarn = ex.DoneByHarn
	res.Samples = ex.Samples
	res.Outs = ex.Outs
	emit(res, *out)
}

func emit(res *Result, out string) {
	b, _ := json.MarshalIndent(res, "", " ")
	if out == "" {
		os.Stdout.Write(b)
		fmt.Println()
		return
	}
	os.WriteFile(out, b, 0o644)
}
