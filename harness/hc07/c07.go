package static

// Harnesses for C07(a,b): permission patterns and the decision procedure of the
// static checker.  In-package (overlaid into services/checker/static) because
// regexify is unexported.

import (
	"context"
	"fmt"
	"regexp"

	"github.com/attestantio/dirk/services/checker"
	"github.com/attestantio/dirk/zzverif/vsym"
)

// the pattern family: documented examples, literals, classes, alternation with and without
// groups, own anchors in any position, inline flags, mixed case, empty
var hc07Patterns = []string{
	"Wallet1", "wallet1", "", ".*", "Validators.*", ".*[02468]", ".*Test.*", "^foo.*", "^^Acc.*$$", "(?i)abc",
	"Wallet1|Wallet2", "(Wallet1|Wallet2)", "a|b|c", "Wal+et[0-9]?", "[A-C]x", "x$", "^x", "a.c", "W(1|2)|Z",
	"(?i)a|b", "^a|b", "a|b$", "^a$|^b$", "[^/]+", "a{2,3}", "(?:ab)*c", "a(", "[z-a]",
}

func hc07Spec(p string) string {
	if p == "" {
		p = ".*" // an empty pattern stands for everything
	}
	return "(?i)^(?:" + p + ")$"
}

// hc07Regex: the expression dirk compiles for a permission pattern matches exactly the names that the
// pattern matches as a whole, case-insensitively (Go regexp semantics), for every ASCII name of length n.
func hc07Regex(n int) {
	p := hc07Patterns[vsym.Choose("pattern", len(hc07Patterns))]
	impl, errI := regexify(p)
	spec, errS := regexp.Compile(hc07Spec(p))
	if errI != nil || errS != nil {
		vsym.Reach("pattern-rejected")
		vsym.Assert("P0-rejected-iff-invalid", (errI != nil) == (errS != nil))
		return
	}
	w := vsym.String("w", n)
	vsym.FindingClass("F2-top-level-alternation", hc07TopLevelAlternation[p])
	got, want := impl.MatchString(w), spec.MatchString(w)
	vsym.Out("got", got)
	vsym.Reach("compared")
	vsym.Assert("P1-pattern-matches-whole-name", got == want)
}

// patterns whose alternation is not enclosed in a group (the class of finding F2)
var hc07TopLevelAlternation = map[string]bool{"Wallet1|Wallet2": true, "a|b|c": true, "W(1|2)|Z": true, "(?i)a|b": true, "^a|b": true, "a|b$": true}

func HC07Regex0()  { hc07Regex(0) }
func HC07Regex1()  { hc07Regex(1) }
func HC07Regex2()  { hc07Regex(2) }
func HC07Regex3()  { hc07Regex(3) }
func HC07Regex5()  { hc07Regex(5) }
func HC07Regex8()  { hc07Regex(8) }
func HC07Regex12() { hc07Regex(12) }
func HC07Regex16() { hc07Regex(16) }

// ---- (b) the decision procedure ----

const hc07Op = "Sign beacon attestation"

var hc07Items = []string{"All", "all", "ALL", "None", "none", hc07Op, "sign BEACON attestation", "~" + hc07Op, "~sign beacon ATTESTATION",
	"Sign", "~Sign", "Access account", "", "~", "All ", "Nothing"}

type hc07Entry struct {
	wallet, account string
	items           []string
}

// hc07Reference: scanning the client's entries in order and, within each entry whose patterns match
// the whole wallet and account name, its items in order, the first item that bears on the operation
// decides; default deny.
func hc07Reference(entries []hc07Entry, wallet, account string) bool {
	dec := false
	for e := len(entries) - 1; e >= 0; e-- {
		ent := entries[e]
		wre := regexp.MustCompile(hc07Spec(ent.wallet))
		are := regexp.MustCompile(hc07Spec(ent.account))
		inner := dec
		for j := len(ent.items) - 1; j >= 0; j-- {
			it := ent.items[j]
			deny := vsym.Or(vsym.EqualFold(it, "none"), vsym.EqualFold(it, "~"+hc07Op))
			allow := vsym.Or(vsym.EqualFold(it, "all"), vsym.EqualFold(it, hc07Op))
			inner = vsym.IteBool(deny, false, vsym.IteBool(allow, true, inner))
		}
		dec = vsym.IteBool(vsym.And(wre.MatchString(wallet), are.MatchString(account)), inner, dec)
	}
	return dec
}

var hc07WalletPats = []string{"Wallet1", "Wallet.*", ".*", "W[a-z]+1|Other"}
var hc07AccountPats = []string{"", "acc.*", "Acc1", ".*[13579]"}

// hc07Decide: real Check against the reference for nEntries entries of nItems items each; the wallet and
// account names are symbolic strings (lengths chosen), every item is symbolic over the spelling table.
func hc07Decide(nEntries, nItems int, history bool) {
	ctx := context.Background()
	var entries []hc07Entry
	var perms []*checker.Permissions
	for e := 0; e < nEntries; e++ {
		nw, na := len(hc07WalletPats), len(hc07AccountPats)
		if history {
			nw, na = 2, 2
		}
		ent := hc07Entry{wallet: hc07WalletPats[vsym.Choose(fmt.Sprintf("wpat%d", e), nw)],
			account: hc07AccountPats[vsym.Choose(fmt.Sprintf("apat%d", e), na)]}
		for j := 0; j < nItems; j++ {
			ent.items = append(ent.items, vsym.OneOf(fmt.Sprintf("item%d_%d", e, j), hc07Items...))
		}
		entries = append(entries, ent)
		path := ent.wallet
		if ent.account != "" {
			path = ent.wallet + "/" + ent.account
		}
		perms = append(perms, &checker.Permissions{Path: path, Operations: ent.items})
	}
	svc, err := New(ctx, WithPermissions(map[string][]*checker.Permissions{"client1": perms, "client2": {{Path: "Nothing", Operations: []string{"All"}}}}))
	if err != nil {
		vsym.Assume(false)
	}
	var wallet, account string
	if history {
		// concrete names (the names are the subject of the other Decide harnesses)
		wallet = "Wallet1"
		account = []string{"acc1", "x"}[vsym.Choose("aname", 2)]
	} else {
		wallet = vsym.String("w", []int{7, 5}[vsym.Choose("wlen", 2)])
		account = vsym.String("a", []int{4, 1}[vsym.Choose("alen", 2)])
	}
	// names do not contain the path separator
	for k := 0; k < len(wallet); k++ {
		vsym.Assume(wallet[k] != '/')
	}
	for k := 0; k < len(account); k++ {
		vsym.Assume(account[k] != '/')
	}
	vsym.FindingClass("F2-top-level-alternation", hc07UsesAlternation(entries))
	if history {
		// an earlier request of the same client for the same account and another (or the same)
		// operation: the decision must not depend on what was asked before
		prior := []string{"Access account", "Sign", hc07Op}[vsym.Choose("prior-op", 3)]
		// ... for the same account or for another account of the same wallet
		priorAccount := []string{account, "zzz", "acc2"}[vsym.Choose("prior-account", 3)]
		svc.Check(ctx, &checker.Credentials{Client: "client1"}, wallet+"/"+priorAccount, prior)
		vsym.Reach("asked-before")
	}
	got := svc.Check(ctx, &checker.Credentials{Client: "client1"}, wallet+"/"+account, hc07Op)
	want := hc07Reference(entries, wallet, account)
	vsym.Out("got", got)
	if got {
		vsym.Reach("allowed")
	} else {
		vsym.Reach("refused")
	}
	vsym.Assert("D1-decision-equals-reference", got == want)
}

func hc07UsesAlternation(entries []hc07Entry) bool {
	for _, e := range entries {
		if e.wallet == "W[a-z]+1|Other" {
			return true
		}
	}
	return false
}

func HC07Decide1x1() { hc07Decide(1, 1, false) }
func HC07Decide1x3() { hc07Decide(1, 3, false) }
func HC07Decide2x2() { hc07Decide(2, 2, false) }
func HC07Decide3x3() { hc07Decide(3, 3, false) }
func HC07Decide3x1() { hc07Decide(3, 1, false) }
func HC07Decide2x3() { hc07Decide(2, 3, false) }

// HC07DecideHistory: the same after an earlier request on the same service.
func HC07DecideHistory() { hc07Decide(2, 2, true) }

// HC07Identity: unknown client, missing identity, nil credentials and malformed account paths are refused.
func HC07Identity() {
	ctx := context.Background()
	svc, err := New(ctx, WithPermissions(map[string][]*checker.Permissions{"client1": {{Path: ".*", Operations: []string{"All"}}}}))
	if err != nil {
		vsym.Assume(false)
	}
	creds := []*checker.Credentials{nil, {Client: ""}, {Client: "client2"}, {Client: "Client1"}, {Client: "client1 "}, {Client: "client1"}}
	paths := []string{"Wallet1/acc1", "Wallet1", "Wallet1/", "/acc1", "", "/", "Wallet1/acc1/x"}
	ci, pi := vsym.Choose("creds", len(creds)), vsym.Choose("path", len(paths))
	got := svc.Check(ctx, creds[ci], paths[pi], hc07Op)
	vsym.Out("got", got)
	known := ci == len(creds)-1
	wellFormed := pi == 0 || pi == 1 || pi == 2 || pi == 6
	vsym.Reach("asked")
	vsym.Assert("I1-no-identity-no-access", vsym.Implies(!known, !got))
	vsym.Assert("I2-malformed-path-refused", vsym.Implies(!wellFormed, !got))
	vsym.Assert("I3-known-client-well-formed-path-allowed", vsym.Implies(known && wellFormed, got))
}
