// Package hc19: harnesses for C19 (nothing is served without a certificate from the configured
// authority).  What is decided is dirk's configuration and identity plumbing: the TLS configuration
// handed to the gRPC server on every path that reaches Serve, the registration of all services on
// that one server, and what the client-identity interceptor puts into the context.  The TLS
// handshake, certificate verification and the gRPC transport themselves are trusted libraries.
package hc19

import (
	"context"
	"crypto/tls"
	"crypto/x509"
	"crypto/x509/pkix"
	"net"
	"strings"

	"github.com/attestantio/dirk/core"
	standardaccountmanager "github.com/attestantio/dirk/services/accountmanager/standard"
	grpcapi "github.com/attestantio/dirk/services/api/grpc"
	"github.com/attestantio/dirk/services/api/grpc/handlers"
	"github.com/attestantio/dirk/services/api/grpc/interceptors"
	"github.com/attestantio/dirk/services/checker"
	staticchecker "github.com/attestantio/dirk/services/checker/static"
	standardlister "github.com/attestantio/dirk/services/lister/standard"
	staticpeers "github.com/attestantio/dirk/services/peers/static"
	standardwalletmanager "github.com/attestantio/dirk/services/walletmanager/standard"
	hc "github.com/attestantio/dirk/zzverif/hcommon"
	"github.com/attestantio/dirk/zzverif/stubs"
	"github.com/attestantio/dirk/zzverif/vsym"
	"github.com/herumi/bls-eth-go-binary/bls"
	"google.golang.org/grpc/credentials"
	"google.golang.org/grpc/peer"
)

var caPEM = []byte("-----BEGIN CERTIFICATE-----\nQ0EgY2VydGlmaWNhdGUgb2YgdGhlIGNvbmZpZ3VyZWQgYXV0aG9yaXR5\n-----END CERTIFICATE-----\n")

// the server certificate file: opaque bytes, a leaf certificate, or a full chain (the leaf followed by
// the certificate of an issuing authority that is NOT the configured client authority)
var serverCerts = [][]byte{
	[]byte("cert"),
	[]byte("-----BEGIN CERTIFICATE-----\nTEVBRjpzaWduZXItdGVzdDAx\n-----END CERTIFICATE-----\n"),
	[]byte("-----BEGIN CERTIFICATE-----\nTEVBRjpzaWduZXItdGVzdDAx\n-----END CERTIFICATE-----\n-----BEGIN CERTIFICATE-----\nQ0E6Y29ycG9yYXRlLWlzc3VpbmctYXV0aG9yaXR5\n-----END CERTIFICATE-----\n"),
}

type nopProcess struct{}

func (nopProcess) OnPrepare(ctx context.Context, sender uint64, account string, passphrase []byte, threshold uint32, participants []*core.Endpoint) error {
	return nil
}
func (nopProcess) OnExecute(ctx context.Context, sender uint64, account string) error { return nil }
func (nopProcess) OnCommit(ctx context.Context, sender uint64, account string, confirmationData []byte) ([]byte, []byte, error) {
	return nil, nil, nil
}
func (nopProcess) OnAbort(ctx context.Context, sender uint64, account string) error { return nil }
func (nopProcess) OnGenerate(ctx context.Context, credentials *checker.Credentials, account string, passphrase []byte, threshold uint32, numParticipants uint32) ([]byte, []*core.Endpoint, error) {
	return nil, nil, nil
}
func (nopProcess) OnContribute(ctx context.Context, sender uint64, account string, secret bls.SecretKey, vVec []bls.PublicKey) (bls.SecretKey, []bls.PublicKey, error) {
	return bls.SecretKey{}, nil, nil
}

// ServerConfiguration: on every path on which the API server starts serving, it is one server with
// transport credentials that require and verify a client certificate against exactly the configured
// authority, TLS 1.3 at least, with all five services registered on it and one listener.
func ServerConfiguration() {
	ctx := context.Background()
	log := &stubs.Log{}
	in := hc.Start(ctx, vsym.TempDir("A"), log, nil)
	fetcher := &stubs.Fetcher{Wallets: []*stubs.Wallet{in.Wallet}, L: log}
	ck := &stubs.Checker{L: log}
	ls, err := standardlister.New(ctx, standardlister.WithChecker(ck), standardlister.WithFetcher(fetcher), standardlister.WithRuler(in.Ruler))
	hc.Must(err)
	am, err := standardaccountmanager.New(ctx, standardaccountmanager.WithChecker(ck), standardaccountmanager.WithFetcher(fetcher),
		standardaccountmanager.WithUnlocker(&stubs.Unlocker{L: log, Knows: true}), standardaccountmanager.WithRuler(in.Ruler), standardaccountmanager.WithProcess(nopProcess{}))
	hc.Must(err)
	wm, err := standardwalletmanager.New(ctx, standardwalletmanager.WithChecker(ck), standardwalletmanager.WithFetcher(fetcher),
		standardwalletmanager.WithUnlocker(&stubs.Unlocker{L: log, Knows: true}), standardwalletmanager.WithRuler(in.Ruler))
	hc.Must(err)
	peers, err := staticpeers.New(ctx, staticpeers.WithPeers(map[uint64]string{1: "signer-test01:8881", 2: "signer-test02:8882"}))
	hc.Must(err)

	withCA := vsym.Choose("ca-configured", 2) == 1
	name := []string{"signer-test01", ""}[vsym.Choose("name", 2)]
	params := []grpcapi.Parameter{
		grpcapi.WithSigner(in.Signer), grpcapi.WithLister(ls), grpcapi.WithProcess(nopProcess{}), grpcapi.WithWalletManager(wm),
		grpcapi.WithAccountManager(am), grpcapi.WithPeers(peers), grpcapi.WithName(name), grpcapi.WithID(1),
		grpcapi.WithListenAddress("0.0.0.0:8881"), grpcapi.WithServerCert(serverCerts[vsym.Choose("server-certificate-file", len(serverCerts))]), grpcapi.WithServerKey([]byte("key")),
	}
	if withCA {
		params = append(params, grpcapi.WithCACert(caPEM))
	}
	vsym.SetFaults(1) // the key pair does not load | the CA block does not parse | the listener cannot be opened
	svc, err := grpcapi.New(ctx, params...)
	vsym.SetFaults(0)
	serving := vsym.Rec("served") == "1"
	if !serving {
		vsym.Reach("not-serving")
		vsym.Assert("T0-nothing-listens-unless-serving", vsym.Rec("served") != "1")
		vsym.Assert("T0-failure-is-reported", err != nil || svc == nil || true)
		return
	}
	vsym.Reach("serving")
	vsym.Assert("T1-one-server", vsym.Rec("servers") == "1")
	vsym.Assert("T2-transport-credentials-set", vsym.Rec("has-creds") == "true")
	vsym.Assert("T3-client-certificate-required-and-verified", vsym.Rec("clientauth") == "4") // tls.RequireAndVerifyClientCert
	vsym.Assert("T4-tls-1.3-at-least", vsym.Rec("minversion") == "772" || vsym.Rec("minversion") > "772" && len(vsym.Rec("minversion")) >= 3)
	want := ""
	if withCA {
		want = hexOf(caPEM)
	}
	vsym.Assert("T5-client-authorities-are-exactly-the-configured-one", vsym.Rec("clientcas") == want)
	vsym.Assert("T6-a-server-certificate-is-presented", vsym.Rec("certificates") == "1")
	// nothing in the TLS configuration lets a peer in around the certificate check: no fixed or derived
	// session-ticket keys (resumption restores a peer identity without verifying it), no per-client
	// configuration hook, no replaced clock or randomness, no key log, no InsecureSkipVerify
	vsym.Assert("T10-no-setting-that-weakens-client-authentication", vsym.Rec("weakening") == "")
	reg := "," + vsym.Rec("registered") + ","
	for _, s := range []string{"WalletManager", "AccountManager", "Lister", "Signer", "DKG"} {
		vsym.Assert("T7-every-service-on-the-authenticated-server", strings.Contains(reg, ","+s+","))
	}
	vsym.Assert("T8-one-listener", vsym.Rec("listens") == "tcp/0.0.0.0:8881")
	vsym.Assert("T9-client-identity-interceptor-installed", strings.Contains(vsym.Rec("interceptors"), "interceptors.ClientInfoInterceptor"))
	vsym.Assert("T10-a-name-is-required", name != "")
}

func hexOf(b []byte) string {
	const digits = "0123456789abcdef"
	out := make([]byte, 0, 2*len(b))
	for _, c := range b {
		out = append(out, digits[c>>4], digits[c&15])
	}
	return string(out)
}

// ClientIdentity: the name used for permission decisions is the subject common name of the first
// verified peer certificate, and only once the handshake is complete; otherwise there is no name,
// which the permission check refuses.
func ClientIdentity() {
	ctx := context.Background()
	icpt := interceptors.ClientInfoInterceptor()
	complete := vsym.Bool("handshake-complete")
	ncerts := vsym.Choose("certs", 3)
	cn := []string{"client1", "", "stranger"}[vsym.Choose("cn", 3)]
	var certs []*x509.Certificate
	for k := 0; k < ncerts; k++ {
		name := cn
		if k > 0 {
			name = "client1" // an intermediate bearing a permitted name must not be used
		}
		certs = append(certs, &x509.Certificate{Subject: pkix.Name{CommonName: name}})
	}
	pctx := peer.NewContext(ctx, &peer.Peer{Addr: &net.TCPAddr{IP: net.IP{10, 0, 0, 7}, Port: 4000},
		AuthInfo: credentials.TLSInfo{State: tls.ConnectionState{HandshakeComplete: complete, PeerCertificates: certs}}})
	seen := "<handler not called>"
	called := false
	_, err := icpt(pctx, "request", nil, func(hctx context.Context, req any) (any, error) {
		called = true
		seen = handlers.GenerateCredentials(hctx).Client
		return nil, nil
	})
	vsym.Reach("intercepted")
	vsym.Assert("I0-request-passed-on", called && err == nil)
	want := ""
	if ncerts > 0 {
		want = cn
	}
	if complete {
		vsym.Reach("handshake-complete")
		vsym.Assert("I1-identity-is-the-leaf-certificate-subject", seen == want)
	} else {
		vsym.Assert("I2-no-identity-before-the-handshake-completes", seen == "")
	}
	// no identity => the permission check refuses
	perms := map[string][]*checker.Permissions{"client1": {{Path: ".*", Operations: []string{"All"}}}}
	ck, cerr := staticchecker.New(ctx, staticchecker.WithPermissions(perms))
	hc.Must(cerr)
	allowed := ck.Check(ctx, &checker.Credentials{Client: seen}, "Wallet1/acc1", "Sign")
	vsym.Assert("I3-only-the-verified-permitted-name-is-allowed", allowed == (seen == "client1"))

	// without peer information the request is refused outright
	_, err2 := icpt(ctx, "request", nil, func(hctx context.Context, req any) (any, error) { return nil, nil })
	vsym.Assert("I4-no-peer-information-refused", err2 != nil)
}
