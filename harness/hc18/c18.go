// Package hc18: harnesses for C18 (listing shows all and only the accounts the client may access).
// Real lister, real fetcher/mem (populated from a store, extended with AddAccount), real runner and
// rules, real lister handler; the permission of every account is a symbolic bit.
package hc18

import (
	"context"
	"fmt"
	staticchecker "github.com/attestantio/dirk/services/checker/static"
	"regexp"
	"strings"

	listerhandler "github.com/attestantio/dirk/services/api/grpc/handlers/lister"
	"github.com/attestantio/dirk/services/api/grpc/interceptors"
	"github.com/attestantio/dirk/services/checker"
	memfetcher "github.com/attestantio/dirk/services/fetcher/mem"
	standardlister "github.com/attestantio/dirk/services/lister/standard"
	"github.com/attestantio/dirk/services/ruler"
	hc "github.com/attestantio/dirk/zzverif/hcommon"
	"github.com/attestantio/dirk/zzverif/stubs"
	"github.com/attestantio/dirk/zzverif/vsym"
	"github.com/herumi/bls-eth-go-binary/bls"
	pb "github.com/wealdtech/eth2-signer-api/pb/v1"
	e2types "github.com/wealdtech/go-eth2-types/v2"
	distributed "github.com/wealdtech/go-eth2-wallet-distributed"
	keystorev4 "github.com/wealdtech/go-eth2-wallet-encryptor-keystorev4"
	scratch "github.com/wealdtech/go-eth2-wallet-store-scratch"
	e2wtypes "github.com/wealdtech/go-eth2-wallet-types/v2"
)

var walletNames = []string{"Wallet1", "Other"}

// "acc11" and "zacc1" contain "acc1": a path naming acc1 must list neither (whole-name matching)
var accountNames = [][]string{{"acc1", "acc11", "zacc1", "Val.1"}, {"acc1"}}
var paths = []string{"Wallet1", "Wallet1/", "Wallet1/acc.*", "Wallet1/acc1", "Wallet1/.*1", "Other", "Nope", "", "/x", "Wallet1/["}

type world struct {
	store   e2wtypes.Store
	enc     e2wtypes.Encryptor
	wallets map[string]e2wtypes.Wallet
	keys    map[string][]byte // "wallet/account" -> composite public key of the account that exists
	perm    map[string]bool   // symbolic permission bit per account
	log     *stubs.Log
}

func newWorld(ctx context.Context) *world {
	hc.Must(e2types.InitBLS())
	w := &world{wallets: map[string]e2wtypes.Wallet{}, keys: map[string][]byte{}, perm: map[string]bool{}, log: &stubs.Log{}}
	if vsym.Symbolic() {
		st := &stubs.Store{N: "store"}
		for k, name := range walletNames {
			dw := stubs.NewDWallet(w.log, name, "distributed", byte(k))
			st.Ws = append(st.Ws, dw)
			w.wallets[name] = dw
		}
		w.store, w.enc = st, stubs.Encryptor{}
	} else {
		w.store, w.enc = scratch.New(), keystorev4.New()
		for _, name := range walletNames {
			dw, err := distributed.CreateWallet(ctx, name, w.store, w.enc)
			hc.Must(err)
			w.wallets[name] = dw
		}
	}
	return w
}

// create imports a distributed account `name` into wallet `wname` and returns it.
func (w *world) create(ctx context.Context, wname, name string) e2wtypes.Account {
	wallet := w.wallets[wname]
	hc.Must(wallet.(e2wtypes.WalletLocker).Unlock(ctx, nil))
	var s0, s1 bls.SecretKey
	s0.SetByCSPRNG()
	s1.SetByCSPRNG()
	var share bls.SecretKey
	id := bls.ID{}
	hc.Must(id.SetLittleEndian([]byte{1, 0, 0, 0, 0, 0, 0, 0}))
	hc.Must(share.Set([]bls.SecretKey{s0, s1}, &id))
	a, err := wallet.(e2wtypes.WalletDistributedAccountImporter).ImportDistributedAccount(ctx, name, share.Serialize(), 2,
		[][]byte{s0.GetPublicKey().Serialize(), s1.GetPublicKey().Serialize()}, map[uint64]string{1: "signer-test01:8881", 2: "signer-test02:8882"}, []byte("pass"))
	hc.Must(err)
	hc.Must(wallet.(e2wtypes.WalletLocker).Lock(ctx))
	w.keys[wname+"/"+name] = a.(e2wtypes.AccountCompositePublicKeyProvider).CompositePublicKey().Marshal()
	w.perm[wname+"/"+name] = vsym.Bool("perm_" + wname + "_" + name)
	return a
}

// expected: the account is in a requested wallet, its name matches the path's account expression
// (anchored at both ends, as the lister anchors it) and the client may access it.
func (w *world) expected(full string, req []string) bool {
	k := strings.Index(full, "/")
	wname, aname := full[:k], full[k+1:]
	want := false
	for _, p := range req {
		if p == "" || strings.HasPrefix(p, "/") {
			continue
		}
		pw, pa := p, ""
		if j := strings.Index(p, "/"); j >= 0 {
			pw, pa = p[:j], p[j+1:]
		}
		if pw != wname {
			continue
		}
		if pa != "" {
			expr := pa
			if !strings.HasPrefix(expr, "^") {
				expr = "^" + expr
			}
			if !strings.HasSuffix(expr, "$") {
				expr = expr + "$"
			}
			re, err := regexp.Compile(expr)
			if err != nil || !re.MatchString(aname) {
				continue
			}
		}
		want = true
	}
	return vsym.And(want, w.perm[full])
}

func listing(dynamic bool) {
	vsym.ForbidCrash()
	ctx := context.Background()
	w := newWorld(ctx)
	// population present at start-up
	for wi, wname := range walletNames {
		for _, aname := range accountNames[wi] {
			if vsym.Choose("exists_"+wname+"_"+aname, 2) == 1 {
				w.create(ctx, wname, aname)
			}
		}
	}
	fetcher, err := memfetcher.New(ctx, memfetcher.WithStores([]e2wtypes.Store{w.store}), memfetcher.WithEncryptor(w.enc))
	hc.Must(err)
	ck := &stubs.Checker{L: w.log, Deny: func(client, account, op string) bool {
		allowed, known := w.perm[account]
		return !known || !allowed || op != ruler.ActionAccessAccount || client != "client1"
	}}
	rs := hc.NewRules(ctx, vsym.TempDir("A"))
	ls, err := standardlister.New(ctx, standardlister.WithChecker(ck), standardlister.WithFetcher(fetcher), standardlister.WithRuler(hc.NewRuler(ctx, rs)))
	hc.Must(err)
	h, err := listerhandler.New(ctx, listerhandler.WithLister(ls))
	hc.Must(err)
	if dynamic {
		// an account created through Dirk after start-up
		a := w.create(ctx, "Wallet1", "acc9")
		hc.Must(fetcher.AddAccount(ctx, w.wallets["Wallet1"], a))
		vsym.Reach("account-added-after-start-up")
	}
	var req []string
	n := 1 + vsym.Choose("npaths", 2)
	for k := 0; k < n; k++ {
		req = append(req, paths[vsym.Choose(fmt.Sprintf("path%d", k), len(paths))])
	}
	cctx := context.WithValue(ctx, &interceptors.ClientName{}, "client1")
	res, err := h.ListAccounts(cctx, &pb.ListAccountsRequest{Paths: req})
	vsym.Assert("L0-listing-answers", err == nil && res != nil)
	if err != nil || res == nil {
		return
	}
	vsym.Out("n", len(res.GetDistributedAccounts()))
	vsym.Reach("listed")
	listed := map[string]bool{}
	for _, a := range res.GetDistributedAccounts() {
		listed[a.GetName()] = true
		key, known := w.keys[a.GetName()]
		vsym.Assert("L1-only-existing-accounts", known)
		if known {
			vsym.Assert("L2-each-entry-carries-its-own-key", vsym.BytesEq(a.GetCompositePublicKey(), key))
			vsym.Reach("entry-checked")
		}
	}
	vsym.Assert("L5-no-plain-accounts-here", len(res.GetAccounts()) == 0)
	for full := range w.keys {
		vsym.Assert("L3-listed-iff-requested-matching-and-permitted", listed[full] == w.expected(full, req))
	}
}

// ListingWhileCreating: an account is created through Dirk while another client is listing the same
// wallet (every interleaving within the bound); once both calls have returned, a listing shows the
// new account (and still shows every other one).
func ListingWhileCreating() {
	vsym.ForbidCrash()
	ctx := context.Background()
	w := newWorld(ctx)
	w.create(ctx, "Wallet1", "acc1")
	w.create(ctx, "Wallet1", "acc2")
	fetcher, err := memfetcher.New(ctx, memfetcher.WithStores([]e2wtypes.Store{w.store}), memfetcher.WithEncryptor(w.enc))
	hc.Must(err)
	ck := &stubs.Checker{L: w.log, Deny: func(client, account, op string) bool {
		allowed, known := w.perm[account]
		return !known || !allowed || op != ruler.ActionAccessAccount || client != "client1"
	}}
	rs := hc.NewRules(ctx, vsym.TempDir("A"))
	ls, err := standardlister.New(ctx, standardlister.WithChecker(ck), standardlister.WithFetcher(fetcher), standardlister.WithRuler(hc.NewRuler(ctx, rs)))
	hc.Must(err)
	h, err := listerhandler.New(ctx, listerhandler.WithLister(ls))
	hc.Must(err)
	// one account was already created after start-up; a second one is being created now
	a9 := w.create(ctx, "Wallet1", "acc9")
	hc.Must(fetcher.AddAccount(ctx, w.wallets["Wallet1"], a9))
	a8 := w.create(ctx, "Wallet1", "acc8")
	cctx := context.WithValue(ctx, &interceptors.ClientName{}, "client1")
	req := []string{"Wallet1"}
	vsym.Explore(2)
	vsym.Spawn(func() { _, _ = h.ListAccounts(cctx, &pb.ListAccountsRequest{Paths: req}) })
	vsym.Spawn(func() { hc.Must(fetcher.AddAccount(ctx, w.wallets["Wallet1"], a8)) })
	vsym.Join()
	vsym.Sequential()
	res, err := h.ListAccounts(cctx, &pb.ListAccountsRequest{Paths: req})
	vsym.Assert("L0-listing-answers", err == nil && res != nil)
	if err != nil || res == nil {
		return
	}
	vsym.Reach("listed-after-concurrent-create")
	listed := map[string]bool{}
	for _, a := range res.GetDistributedAccounts() {
		listed[a.GetName()] = true
	}
	for full := range w.keys {
		vsym.Assert("L3-listed-iff-requested-matching-and-permitted", listed[full] == w.expected(full, req))
	}
}

// ListingWithStaticChecker: the same statement with the real static permissions checker configured
// with per-account permissions (each account permitted or not, every combination): one refused
// account must not hide the permitted ones, within a call or in the next one.
func ListingWithStaticChecker() {
	vsym.ForbidCrash()
	ctx := context.Background()
	w := newWorld(ctx)
	var perms []*checker.Permissions
	for wi, wname := range walletNames {
		for _, aname := range accountNames[wi] {
			w.create(ctx, wname, aname)
			allowed := vsym.Choose("permitted_"+wname+"_"+aname, 2) == 1
			w.perm[wname+"/"+aname] = allowed
			if allowed {
				perms = append(perms, &checker.Permissions{Path: wname + "/" + regexp.QuoteMeta(aname), Operations: []string{"Access account"}})
			}
		}
	}
	fetcher, err := memfetcher.New(ctx, memfetcher.WithStores([]e2wtypes.Store{w.store}), memfetcher.WithEncryptor(w.enc))
	hc.Must(err)
	ck, err := staticchecker.New(ctx, staticchecker.WithPermissions(map[string][]*checker.Permissions{"client1": perms, "client2": {{Path: "Nothing", Operations: []string{"All"}}}}))
	hc.Must(err)
	rs := hc.NewRules(ctx, vsym.TempDir("A"))
	ls, err := standardlister.New(ctx, standardlister.WithChecker(ck), standardlister.WithFetcher(fetcher), standardlister.WithRuler(hc.NewRuler(ctx, rs)))
	hc.Must(err)
	h, err := listerhandler.New(ctx, listerhandler.WithLister(ls))
	hc.Must(err)
	cctx := context.WithValue(ctx, &interceptors.ClientName{}, "client1")
	req := []string{[]string{"Wallet1", "Wallet1/acc.*", "Other"}[vsym.Choose("path", 3)]}
	for round := 0; round < 2; round++ {
		res, err := h.ListAccounts(cctx, &pb.ListAccountsRequest{Paths: req})
		vsym.Assert("L0-listing-answers", err == nil && res != nil)
		if err != nil || res == nil {
			return
		}
		vsym.Reach("listed-with-the-static-checker")
		listed := map[string]bool{}
		for _, a := range res.GetDistributedAccounts() {
			listed[a.GetName()] = true
		}
		for full := range w.keys {
			vsym.Assert("L3-listed-iff-requested-matching-and-permitted", listed[full] == w.expected(full, req))
		}
	}
}

// ListingAfterLookupsAndSecondCreate: an account created through Dirk is looked up by name and by
// key (as signing does), an unknown name and key are looked up too, then a second account is created:
// the creation returns and the listing shows both.
func ListingAfterLookupsAndSecondCreate() {
	vsym.ForbidCrash()
	ctx := context.Background()
	w := newWorld(ctx)
	w.create(ctx, "Wallet1", "acc1")
	fetcher, err := memfetcher.New(ctx, memfetcher.WithStores([]e2wtypes.Store{w.store}), memfetcher.WithEncryptor(w.enc))
	hc.Must(err)
	ck := &stubs.Checker{L: w.log, Deny: func(client, account, op string) bool {
		allowed, known := w.perm[account]
		return !known || !allowed || op != ruler.ActionAccessAccount || client != "client1"
	}}
	rs := hc.NewRules(ctx, vsym.TempDir("A"))
	ls, err := standardlister.New(ctx, standardlister.WithChecker(ck), standardlister.WithFetcher(fetcher), standardlister.WithRuler(hc.NewRuler(ctx, rs)))
	hc.Must(err)
	h, err := listerhandler.New(ctx, listerhandler.WithLister(ls))
	hc.Must(err)
	a9 := w.create(ctx, "Wallet1", "acc9")
	hc.Must(fetcher.AddAccount(ctx, w.wallets["Wallet1"], a9))
	switch vsym.Choose("lookup", 4) {
	case 0:
		_, got, ferr := fetcher.FetchAccount(ctx, "Wallet1/acc9")
		vsym.Assert("L6-created-account-found-by-name", ferr == nil && got != nil)
	case 1:
		_, got, ferr := fetcher.FetchAccountByKey(ctx, a9.PublicKey().Marshal())
		vsym.Assert("L7-created-account-found-by-key", ferr == nil && got != nil)
	case 2:
		_, _, ferr := fetcher.FetchAccount(ctx, "Wallet1/nope")
		vsym.Assert("L8-unknown-name-not-found", ferr != nil)
	default:
		_, _, ferr := fetcher.FetchAccountByKey(ctx, make([]byte, 48))
		vsym.Assert("L9-unknown-key-not-found", ferr != nil)
	}
	a8 := w.create(ctx, "Wallet1", "acc8")
	hc.Must(fetcher.AddAccount(ctx, w.wallets["Wallet1"], a8))
	cctx := context.WithValue(ctx, &interceptors.ClientName{}, "client1")
	req := []string{"Wallet1"}
	res, err := h.ListAccounts(cctx, &pb.ListAccountsRequest{Paths: req})
	vsym.Assert("L0-listing-answers", err == nil && res != nil)
	if err != nil || res == nil {
		return
	}
	vsym.Reach("listed-after-second-create")
	listed := map[string]bool{}
	for _, a := range res.GetDistributedAccounts() {
		listed[a.GetName()] = true
	}
	for full := range w.keys {
		vsym.Assert("L3-listed-iff-requested-matching-and-permitted", listed[full] == w.expected(full, req))
	}
}

func ListingAtStartUp()          { listing(false) }
func ListingAfterDynamicCreate() { listing(true) }

var _ = checker.Credentials{}
