// Package hc14: harnesses for C14 (conflicting duties can never both reach the signing threshold).
// Compositional: (L1) on one instance at most one of two conflicting duties is ever approved, however
// they are ordered and repeated; (L2) key generation only proceeds when 2t > n (hcdkg.GuardsOn…, run as
// part of this check); (L3) for n <= 16 any two sets of at least t of n instances intersect when 2t > n.
// Hence the two duties cannot both collect t partial signatures. The composition is a paper argument.
package hc14

import (
	"context"
	"fmt"

	"github.com/attestantio/dirk/core"
	"github.com/attestantio/dirk/rules"
	hc "github.com/attestantio/dirk/zzverif/hcommon"
	"github.com/attestantio/dirk/zzverif/stubs"
	"github.com/attestantio/dirk/zzverif/vsym"
)

const max63 = uint64(1) << 63

func attDomain() []byte { d := make([]byte, 32); d[0] = 1; return d }

// oneInstanceAttestations: two conflicting attestations (same target with different data, or one
// surrounding the other) delivered to one instance in any order with repeats: never both signed.
func oneInstanceAttestations(k int, distributed bool) {
	ctx := context.Background()
	log := &stubs.Log{}
	in := hc.Start(ctx, vsym.TempDir("A"), log, nil)
	if distributed {
		// the account is this instance's share of a distributed key: it has a share key (under which
		// the earlier state below is recorded) and a different composite key
		in.Wallet.MakeDistributed(0, hc.MkKey(0xd1))
	}
	// arbitrary earlier state of the key on this instance
	if vsym.Choose("pre", 2) == 1 {
		S, T := vsym.Int64("S"), vsym.Int64("T")
		vsym.Assume(vsym.And(S >= 0, T >= 0))
		hc.Must(in.Rules.ImportSlashingProtection(ctx, map[[48]byte]*rules.SlashingProtection{
			hc.KeyA: {PubKey: hc.KeyA[:], HighestProposedSlot: -1, HighestAttestedSourceEpoch: S, HighestAttestedTargetEpoch: T}}))
	}
	s := []uint64{vsym.Uint64("s1"), vsym.Uint64("s2")}
	t := []uint64{vsym.Uint64("t1"), vsym.Uint64("t2")}
	// the two duties conflict: double vote (same target, different block root) or surround
	vsym.Assume(vsym.Or(t[0] == t[1], vsym.And(s[0] < s[1], t[1] < t[0]), vsym.And(s[1] < s[0], t[0] < t[1])))
	roots := [][]byte{hc.MkRoot(0x21), hc.MkRoot(0x22)}
	signed := []bool{false, false}
	for step := 0; step < k; step++ {
		d := vsym.Choose(fmt.Sprintf("duty_%d", step), 2)
		duty := &rules.SignBeaconAttestationData{Domain: attDomain(), BeaconBlockRoot: roots[d],
			Source: &rules.Checkpoint{Epoch: s[d], Root: hc.Root}, Target: &rules.Checkpoint{Epoch: t[d], Root: hc.Root}}
		var res core.Result
		var sig []byte
		if distributed && vsym.Choose(fmt.Sprintf("endpoint_%d", step), 2) == 1 {
			// the duty arrives in a batch together with another validator's attestation
			other := &rules.SignBeaconAttestationData{Domain: attDomain(), BeaconBlockRoot: hc.Root,
				Source: &rules.Checkpoint{Epoch: uint64(10 * step), Root: hc.Root}, Target: &rules.Checkpoint{Epoch: uint64(10*step + 1), Root: hc.Root}}
			rs, ss := in.Signer.SignBeaconAttestations(ctx, hc.Creds(), []string{"W/a", "W/b"}, [][]byte{nil, nil}, []*rules.SignBeaconAttestationData{duty, other})
			if len(rs) == 2 && len(ss) == 2 {
				res, sig = rs[0], ss[0]
			}
		} else {
			res, sig = in.Signer.SignBeaconAttestation(ctx, hc.Creds(), "W/a", nil, duty)
		}
		if res == core.ResultSucceeded && sig != nil {
			signed[d] = true
			vsym.Reach("a-duty-was-signed")
		}
	}
	vsym.Assert("Q1-at-most-one-of-two-conflicting-attestations-signed-per-instance", !(signed[0] && signed[1]))
}

func OneInstanceAttestations2() { oneInstanceAttestations(2, false) }
func OneInstanceAttestations3() { oneInstanceAttestations(3, false) }
func OneInstanceAttestations4() { oneInstanceAttestations(4, false) }

// OneInstanceShareAccount2: the same for an account that is a share of a distributed key, with every
// duty arriving through the single or through the batch endpoint.
func OneInstanceShareAccount2() { oneInstanceAttestations(2, true) }
func OneInstanceShareAccount3() { oneInstanceAttestations(3, true) }

// oneInstanceProposals: two different blocks at one slot.
func oneInstanceProposals(k int) {
	ctx := context.Background()
	log := &stubs.Log{}
	in := hc.Start(ctx, vsym.TempDir("A"), log, nil)
	if vsym.Choose("pre", 2) == 1 {
		P := vsym.Int64("P")
		vsym.Assume(P >= 0)
		hc.Must(in.Rules.ImportSlashingProtection(ctx, map[[48]byte]*rules.SlashingProtection{
			hc.KeyA: {PubKey: hc.KeyA[:], HighestProposedSlot: P, HighestAttestedSourceEpoch: -1, HighestAttestedTargetEpoch: -1}}))
	}
	slot := vsym.Uint64("slot")
	bodies := [][]byte{hc.MkRoot(0x31), hc.MkRoot(0x32)}
	signed := []bool{false, false}
	for step := 0; step < k; step++ {
		d := vsym.Choose(fmt.Sprintf("duty_%d", step), 2)
		res, sig := in.Signer.SignBeaconProposal(ctx, hc.Creds(), "W/a", nil, &rules.SignBeaconProposalData{Domain: make([]byte, 32), Slot: slot,
			ProposerIndex: 1, ParentRoot: hc.Root, StateRoot: hc.Root, BodyRoot: bodies[d]})
		if res == core.ResultSucceeded && sig != nil {
			signed[d] = true
			vsym.Reach("a-duty-was-signed")
		}
	}
	vsym.Assert("Q2-at-most-one-of-two-blocks-at-a-slot-signed-per-instance", !(signed[0] && signed[1]))
}

func OneInstanceProposals2() { oneInstanceProposals(2) }
func OneInstanceProposals4() { oneInstanceProposals(4) }

func popcount16(m uint32) uint32 {
	c := uint32(0)
	for k := 0; k < 16; k++ {
		c += (m >> uint(k)) & 1
	}
	return c
}

// QuorumIntersection: for n <= 16 instances and a threshold with 2t > n, any two sets of at least t
// instances share an instance (which by L1 signs at most one of the two duties).
func QuorumIntersection() {
	n, t := vsym.Uint32("n"), vsym.Uint32("t")
	a, b := vsym.Uint32("setA"), vsym.Uint32("setB")
	vsym.Assume(vsym.And(n >= 1, n <= 16, t <= n, 2*t > n))
	all := (uint32(1) << n) - 1
	vsym.Assume(vsym.And(a&^all == 0, b&^all == 0, popcount16(a) >= t, popcount16(b) >= t))
	vsym.Reach("two-quorums")
	vsym.Assert("Q3-two-quorums-share-an-instance", a&b != 0)
}
