// Package vsym: intrinsics through which harnesses obtain symbolic inputs and
// state assumptions and assertions.  This file is the declaration-only
// version loaded (as an overlay) by the symbolic executor, which intercepts
// every function here.  vsym_native.go is the natively compiled twin used for
// replaying counterexamples and for the engine self-check.
package vsym

import "context"

func Uint64(name string) uint64
func Int64(name string) int64
func Uint32(name string) uint32
func Int32(name string) int32
func Int(name string) int
func Byte(name string) byte
func Bool(name string) bool
func Bytes(name string, n int) []byte

// Choose forks the exploration: one path per value in [0,n).
func Choose(name string, n int) int

// Assume restricts the current path; it must precede the code it constrains.
func Assume(c bool)

// Assert is a deciding query: path-condition ∧ ¬c must be unsatisfiable.
func Assert(id string, c bool)

// Reach marks a vacuity witness: it must be hit on at least one feasible path.
func Reach(id string)

func And(c ...bool) bool
func Or(c ...bool) bool
func Not(c bool) bool
func Implies(a, b bool) bool
func IteU64(c bool, a, b uint64) uint64
func IteI64(c bool, a, b int64) int64
func BytesEq(a, b []byte) bool

// Out records an observable for the engine-vs-native differential self-check.
func Out(name string, v any)

// FindingClass names an input class of a known finding (see known_findings.json).
func FindingClass(name string, c bool)

// TempDir returns a storage directory stable for the run, keyed by name.
func TempDir(name string) string

// ForbidCrash makes a panic escaping any goroutine (or a deadlock) a violation.
func ForbidCrash()
func SetGOMAXPROCS(n int)

// Symbolic reports whether the harness runs under the symbolic executor.
func Symbolic() bool

// Try runs f and reports whether it panicked.
func Try(f func()) (bool, string)

// Explore switches the scheduler to schedule exploration with a pre-emption bound.
func Explore(preemptionBound int)
func Sequential()
func SelectFork(on bool)
func Spawn(f func())
func Join()

// Fault is an environment failure decided by the explorer at a named site.
func Fault(site string) bool
func SetFaults(budget int)

// IntRange is a symbolic int in [lo,hi] encoded as a mathematical integer
// (integer-encoding mode: every arithmetic result is side-conditioned to fit int64).
func IntRange(name string, lo, hi int) int

// LegacyRecord returns bytes standing for a legacy (gob-encoded) record with
// nfields int64 fields, together with the field values.
func LegacyRecord(tag string, nfields int) ([]byte, []int64)

// DecimalInt64 is the decimal rendering of a symbolic int64.
func DecimalInt64(name string) string

// ParseDecimal recovers the number from a decimal string (ends the path when it is not a number).
func ParseDecimal(s string) int64

// Settle lets background goroutines of the real code finish (native: a short sleep; symbolic: nothing).
func Settle()

// UntilCrash runs f as "the process": if a crash point fires inside (in any goroutine it
// started), the process is gone and UntilCrash returns true.
func UntilCrash(f func()) bool

// CrashPoint is a point at which the process may be killed.
func CrashPoint(site string)
func SetCrashes(budget int)

// ModelAllOpensSynced reports whether every badger.Open seen by the model had SyncWrites set.
func ModelAllOpensSynced() bool

// DeferGoroutines selects the sequential scheduling policy: false = a new goroutine runs at
// once until it blocks or ends (default); true = it runs only once its creator blocks or ends.
func DeferGoroutines(on bool)

// String is a string of n symbolic ASCII bytes (each in 1..127).
func String(name string, n int) string

// OneOf is one of the given strings, selected symbolically.
func OneOf(name string, table ...string) string
func EqualFold(a, b string) bool
func IteBool(c, a, b bool) bool

// AdvanceClock moves the clock of the code under test forward (native: sleeps).
func AdvanceClock(d int64)

// ForkGoroutineOrder explores every order in which the runnable goroutines of one request are run
// (together with DeferGoroutines(true): every completion order of a fan-out).
func ForkGoroutineOrder(on bool)

// Rec returns what the transport recorders (tls/x509/grpc/net models) saw; symbolic executor only.
func Rec(key string) string

func ModelOpensKeepLockGuard() bool

// Invoke delivers a request to the serving gRPC server of the model as the transport would after the
// handshake: through the server's interceptor chain to the registered service method ("/v1.Signer/Sign").
func Invoke(fullMethod string, ctx context.Context, req any) (any, error)
