// Package vsym, native twin: the same API bound to a concrete assignment read
// from the file named by $VSYM_REPLAY.  Used to replay solver counterexamples
// against the natively compiled real code and for the engine self-check.
package vsym

import (
	"bytes"
	"context"
	"encoding/gob"
	"encoding/json"
	"fmt"
	"os"
	"runtime"
	"strconv"
	"strings"
	"sync"
	"testing"
	"time"
)

type Assignment struct {
	Harness string            `json:"harness"`
	Model   map[string]string `json:"model"`
	Chooses map[string]int    `json:"chooses"`
	Faults  []string          `json:"faults,omitempty"`
	Crashes []string          `json:"crashes,omitempty"`
	Tag     string            `json:"tag,omitempty"`
	// schedule steering (C04/C15): the order in which the tasks first ran and the operations at
	// which a task was pre-empted in the executor's counterexample
	TaskOrder []int        `json:"task_order,omitempty"`
	Steer     []SteerPoint `json:"steer,omitempty"`
}

// SteerPoint: the N-th visible operation of kind What in task Task is where the task is held back.
type SteerPoint struct {
	Task int    `json:"task"`
	N    int    `json:"n"`
	What string `json:"what"`
}

type state struct {
	a         Assignment
	nameCnt   map[string]int
	chooseCnt map[string]int
	dirs      map[string]string
	fails     []string
	outs      []string
	wg        sync.WaitGroup
	mu        sync.Mutex
	faultCnt  map[string]int
	crashCnt  map[string]int
	crashCh   chan struct{}
	// steering
	pending  []func()
	taskOf   map[int64]int
	parentOf map[int64]int64
	opCnt    map[string]int
}

var cur *state

type assumeFailed struct{}

func clean(name string) string {
	return strings.Map(func(r rune) rune {
		if (r >= 'a' && r <= 'z') || (r >= 'A' && r <= 'Z') || (r >= '0' && r <= '9') || r == '_' {
			return r
		}
		return '_'
	}, name)
}

func fresh(name string) string {
	cur.mu.Lock()
	defer cur.mu.Unlock()
	n := cur.nameCnt[name]
	cur.nameCnt[name] = n + 1
	c := clean(name)
	if n == 0 {
		return c
	}
	return fmt.Sprintf("%s__%d", c, n)
}

func bits(name string) uint64 {
	s, ok := cur.a.Model[fresh(name)]
	if !ok {
		return 0
	}
	s = strings.TrimSpace(s)
	switch {
	case strings.HasPrefix(s, "#x"):
		v, _ := strconv.ParseUint(s[2:], 16, 64)
		return v
	case strings.HasPrefix(s, "#b"):
		v, _ := strconv.ParseUint(s[2:], 2, 64)
		return v
	case s == "true":
		return 1
	case s == "false":
		return 0
	}
	v, _ := strconv.ParseUint(s, 10, 64)
	return v
}

func Uint64(name string) uint64 { return bits(name) }
func Int64(name string) int64   { return int64(bits(name)) }
func Uint32(name string) uint32 { return uint32(bits(name)) }
func Int32(name string) int32   { return int32(bits(name)) }
func Int(name string) int       { return int(bits(name)) }
func Byte(name string) byte     { return byte(bits(name)) }
func Bool(name string) bool     { return bits(name) != 0 }

func Bytes(name string, n int) []byte {
	out := make([]byte, n)
	for k := range out {
		out[k] = byte(bits(fmt.Sprintf("%s_%d", name, k)))
	}
	return out
}

func Choose(name string, n int) int {
	cur.mu.Lock()
	cnt := cur.chooseCnt[name]
	cur.chooseCnt[name] = cnt + 1
	cur.mu.Unlock()
	key := name
	if cnt > 0 {
		key = fmt.Sprintf("%s#%d", name, cnt)
	}
	c := cur.a.Chooses[key]
	if c < 0 || c >= n {
		return 0
	}
	return c
}

func Assume(c bool) {
	if !c {
		panic(assumeFailed{})
	}
}

func Assert(id string, c bool) {
	if !c {
		cur.mu.Lock()
		cur.fails = append(cur.fails, id)
		cur.mu.Unlock()
	}
}

func Reach(id string) {}

func And(c ...bool) bool {
	for _, x := range c {
		if !x {
			return false
		}
	}
	return true
}

func Or(c ...bool) bool {
	for _, x := range c {
		if x {
			return true
		}
	}
	return false
}

func Not(c bool) bool        { return !c }
func Implies(a, b bool) bool { return !a || b }
func IteU64(c bool, a, b uint64) uint64 {
	if c {
		return a
	}
	return b
}
func IteI64(c bool, a, b int64) int64 {
	if c {
		return a
	}
	return b
}
func BytesEq(a, b []byte) bool { return string(a) == string(b) }

func Out(name string, v any) {
	cur.mu.Lock()
	cur.outs = append(cur.outs, fmt.Sprintf("%s=%v", name, v))
	cur.mu.Unlock()
}

func FindingClass(name string, c bool) {}

func TempDir(name string) string {
	cur.mu.Lock()
	defer cur.mu.Unlock()
	if d, ok := cur.dirs[name]; ok {
		return d
	}
	d, err := os.MkdirTemp("", "vsym-"+clean(name)+"-")
	if err != nil {
		panic(err)
	}
	cur.dirs[name] = d
	return d
}

func ForbidCrash()         {}
func SetGOMAXPROCS(n int)  { runtime.GOMAXPROCS(n) }
func Symbolic() bool       { return false }
func Explore(bound int)    {}
func Sequential()          {}
func SelectFork(on bool)   {}
func SetFaults(budget int) {}

func Try(f func()) (panicked bool, msg string) {
	defer func() {
		if p := recover(); p != nil {
			if _, ok := p.(assumeFailed); ok {
				panic(p)
			}
			panicked, msg = true, fmt.Sprint(p)
		}
	}()
	f()
	return false, ""
}

func Spawn(f func()) {
	if steering() {
		// tasks are started by Join, in the order of the executor's counterexample
		cur.pending = append(cur.pending, f)
		return
	}
	cur.wg.Add(1)
	go func() {
		defer cur.wg.Done()
		f()
	}()
}

func Join() {
	if !steering() || len(cur.pending) == 0 {
		cur.wg.Wait()
		return
	}
	st := cur
	order := append([]int(nil), st.a.TaskOrder...)
	seen := map[int]bool{}
	for _, t := range order {
		seen[t] = true
	}
	for t := 1; t <= len(st.pending); t++ {
		if !seen[t] {
			order = append(order, t)
		}
	}
	for _, t := range order {
		if t < 1 || t > len(st.pending) {
			continue
		}
		task, f := t, st.pending[t-1]
		st.wg.Add(1)
		go func() {
			defer st.wg.Done()
			st.mu.Lock()
			st.taskOf[goid()] = task
			st.mu.Unlock()
			f()
		}()
		time.Sleep(steerStagger)
	}
	st.pending = nil
	done := make(chan struct{})
	go func() { st.wg.Wait(); close(done) }()
	select {
	case <-done:
	case <-time.After(steerWatchdog + time.Duration(len(st.a.Steer)+1)*steerHold):
		panic("deadlock: the requests did not all complete (native watchdog)")
	}
}

const replayWatchdog = 150 * time.Second

const (
	steerStagger  = 120 * time.Millisecond
	steerHold     = 600 * time.Millisecond
	steerWatchdog = 8 * time.Second
)

func steering() bool { return cur != nil && (len(cur.a.Steer) > 0 || len(cur.a.TaskOrder) > 0) }

func goid() int64 {
	var buf [64]byte
	n := runtime.Stack(buf[:], false)
	// "goroutine 123 [running]:"
	f := strings.Fields(string(buf[:n]))
	if len(f) < 2 {
		return -1
	}
	id, _ := strconv.ParseInt(f[1], 10, 64)
	return id
}

// creators maps every live goroutine to the goroutine that created it ("created by ... in goroutine N").
func creators() map[int64]int64 {
	buf := make([]byte, 1<<20)
	n := runtime.Stack(buf, true)
	out := map[int64]int64{}
	for _, blk := range strings.Split(string(buf[:n]), "\n\n") {
		f := strings.Fields(blk)
		if len(f) < 2 || f[0] != "goroutine" {
			continue
		}
		id, err := strconv.ParseInt(f[1], 10, 64)
		if err != nil {
			continue
		}
		if k := strings.LastIndex(blk, " in goroutine "); k >= 0 {
			rest := strings.Fields(blk[k+len(" in goroutine "):])
			if len(rest) > 0 {
				if pid, err := strconv.ParseInt(rest[0], 10, 64); err == nil {
					out[id] = pid
				}
			}
		}
	}
	return out
}

// taskOfCurrent: the task (1-based Spawn order) the calling goroutine belongs to, following the
// chain of creating goroutines; 0 if it does not descend from a task.
func taskOfCurrent() int {
	st := cur
	g := goid()
	st.mu.Lock()
	if t, ok := st.taskOf[g]; ok {
		st.mu.Unlock()
		return t
	}
	st.mu.Unlock()
	cr := creators()
	st.mu.Lock()
	defer st.mu.Unlock()
	for k, v := range cr {
		st.parentOf[k] = v
	}
	x := g
	for depth := 0; depth < 16; depth++ {
		if t, ok := st.taskOf[x]; ok {
			st.taskOf[g] = t
			return t
		}
		p, ok := st.parentOf[x]
		if !ok {
			break
		}
		x = p
	}
	st.taskOf[g] = 0
	return 0
}

// Yield is called by the instrumented wrappers (zzverif/vsync, zzverif/fbadger) before a visible
// operation; when the executor's counterexample pre-empted this task at this operation the task is
// held back long enough for the others to run.
func Yield(what string) {
	if !steering() {
		return
	}
	t := taskOfCurrent()
	if t == 0 {
		return
	}
	st := cur
	st.mu.Lock()
	key := fmt.Sprintf("%d|%s", t, what)
	n := st.opCnt[key]
	st.opCnt[key] = n + 1
	hold := false
	for _, sp := range st.a.Steer {
		if sp.Task == t && sp.What == what && sp.N == n {
			hold = true
		}
	}
	st.mu.Unlock()
	if hold {
		time.Sleep(steerHold)
	}
}

func Fault(site string) bool {
	cur.mu.Lock()
	defer cur.mu.Unlock()
	n := cur.faultCnt[site]
	cur.faultCnt[site] = n + 1
	key := site
	if n > 0 {
		key = fmt.Sprintf("%s#%d", site, n)
	}
	for _, f := range cur.a.Faults {
		if f == key {
			return true
		}
	}
	return false
}

// RunReplay runs every assignment of $VSYM_REPLAY against the named harness functions.
func RunReplay(t *testing.T, harnesses map[string]func()) {
	path := os.Getenv("VSYM_REPLAY")
	if path == "" {
		t.Skip("VSYM_REPLAY not set")
	}
	raw, err := os.ReadFile(path)
	if err != nil {
		t.Fatal(err)
	}
	var list []Assignment
	if err := json.Unmarshal(raw, &list); err != nil {
		t.Fatal(err)
	}
	for k, a := range list {
		f := harnesses[a.Harness]
		if f == nil {
			fmt.Printf("VSYM-BEGIN %d\nVSYM-ERROR unknown harness %s\nVSYM-END %d\n", k, a.Harness, k)
			continue
		}
		cur = &state{a: a, nameCnt: map[string]int{}, chooseCnt: map[string]int{}, dirs: map[string]string{}, faultCnt: map[string]int{}, crashCnt: map[string]int{},
			taskOf: map[int64]int{}, parentOf: map[int64]int64{}, opCnt: map[string]int{}}
		fmt.Printf("VSYM-BEGIN %d\n", k)
		// the harness runs in its own goroutine under a watchdog: a run that never returns (requests
		// waiting on each other for ever) is reported instead of hanging the replay
		done := make(chan struct{})
		go func() {
			defer close(done)
			defer func() {
				if p := recover(); p != nil {
					if _, ok := p.(assumeFailed); ok {
						fmt.Println("VSYM-ASSUME-FAILED")
						return
					}
					fmt.Printf("VSYM-PANIC %v\n", strings.ReplaceAll(fmt.Sprint(p), "\n", " "))
				}
			}()
			f()
		}()
		select {
		case <-done:
		case <-time.After(replayWatchdog):
			fmt.Println("VSYM-PANIC deadlock: the harness did not return (native watchdog)")
		}
		for _, o := range cur.outs {
			fmt.Printf("VSYM-OUT %s\n", o)
		}
		for _, id := range cur.fails {
			fmt.Printf("VSYM-ASSERT-FAIL %s\n", id)
		}
		for _, d := range cur.dirs {
			os.RemoveAll(d)
		}
		fmt.Printf("VSYM-END %d\n", k)
	}
}

func IntRange(name string, lo, hi int) int {
	v := int(int64(bits(name)))
	if v < lo || v > hi {
		panic(assumeFailed{})
	}
	return v
}

// LegacyRecord natively produces real gob bytes for the values of the assignment.
func LegacyRecord(tag string, nfields int) ([]byte, []int64) {
	vals := make([]int64, nfields)
	for k := range vals {
		vals[k] = int64(bits(fmt.Sprintf("legacy%s_%d", tag, k)))
	}
	var buf bytes.Buffer
	enc := gob.NewEncoder(&buf)
	var err error
	switch nfields {
	case 1:
		err = enc.Encode(struct{ Slot int64 }{vals[0]})
	case 2:
		err = enc.Encode(struct{ SourceEpoch, TargetEpoch int64 }{vals[0], vals[1]})
	default:
		panic("LegacyRecord: unsupported field count")
	}
	if err != nil {
		panic(err)
	}
	return buf.Bytes(), vals
}

func DecimalInt64(name string) string { return strconv.FormatInt(int64(bits(name)), 10) }

func ParseDecimal(s string) int64 {
	n, err := strconv.ParseInt(s, 10, 64)
	if err != nil {
		panic(assumeFailed{})
	}
	return n
}

func Settle() { time.Sleep(400 * time.Millisecond) }

// ---- crash simulation (native): the crashing goroutine blocks for ever and
// UntilCrash abandons the "process"; the harness then closes the old store
// handle and restarts on the same directory. ----

func UntilCrash(f func()) bool {
	cur.mu.Lock()
	cur.crashCh = make(chan struct{}, 1)
	ch := cur.crashCh
	cur.mu.Unlock()
	done := make(chan interface{}, 1)
	go func() {
		defer func() { done <- recover() }()
		f()
	}()
	select {
	case p := <-done:
		if p != nil {
			panic(p)
		}
		return false
	case <-ch:
		return true
	}
}

func crashSelected(site string) bool {
	cur.mu.Lock()
	n := cur.crashCnt[site]
	cur.crashCnt[site] = n + 1
	cur.mu.Unlock()
	key := site
	if n > 0 {
		key = fmt.Sprintf("%s#%d", site, n)
	}
	for _, c := range cur.a.Crashes {
		if c == key {
			return true
		}
	}
	return false
}

// CrashNow ends the simulated process from the calling goroutine.
func CrashNow() {
	cur.mu.Lock()
	ch := cur.crashCh
	cur.mu.Unlock()
	if ch != nil {
		select {
		case ch <- struct{}{}:
		default:
		}
	}
	select {}
}

func CrashPoint(site string) {
	if crashSelected(site) {
		CrashNow()
	}
}

// CrashSelected is CrashPoint without dying (for wrappers that must do something first).
func CrashSelected(site string) bool { return crashSelected(site) }

// CrashSubset reports whether batch entry k had reached the disk when the process died.
func CrashSubset(k int) bool {
	for _, c := range cur.a.Crashes {
		if c == fmt.Sprintf("subset:%d", k) {
			return true
		}
	}
	return false
}

func SetCrashes(budget int)     {}
func ModelAllOpensSynced() bool { return true }

func DeferGoroutines(on bool) {}

func String(name string, n int) string {
	b := make([]byte, n)
	for k := range b {
		b[k] = byte(bits(fmt.Sprintf("%s_%d", name, k)))
	}
	return string(b)
}

func OneOf(name string, table ...string) string {
	k := int(bits(name))
	if k < 0 || k >= len(table) {
		k = 0
	}
	return table[k]
}

func EqualFold(a, b string) bool { return strings.EqualFold(a, b) }

func IteBool(c, a, b bool) bool {
	if c {
		return a
	}
	return b
}

func AdvanceClock(d int64) { time.Sleep(time.Duration(d)) }

func ForkGoroutineOrder(on bool) {}

func Rec(key string) string { return "" }

func ModelOpensKeepLockGuard() bool { return true }

func Invoke(fullMethod string, ctx context.Context, req any) (any, error) {
	return nil, fmt.Errorf("vsym.Invoke: the model transport exists only in the executor")
}
