// Package hc09: harnesses for C09 (valid advancing duties are signed; batches equal one-at-a-time).
package hc09

import (
	"context"
	"fmt"

	"github.com/attestantio/dirk/core"
	"github.com/attestantio/dirk/rules"
	standardrules "github.com/attestantio/dirk/rules/standard"
	"github.com/attestantio/dirk/services/ruler"
	hc "github.com/attestantio/dirk/zzverif/hcommon"
	"github.com/attestantio/dirk/zzverif/stubs"
	"github.com/attestantio/dirk/zzverif/vsym"
)

const max63 = uint64(1) << 63

func attesterDomain(tag string) []byte {
	d := vsym.Bytes("dom"+tag, 32)
	vsym.Assume(vsym.And(d[0] == 1, d[1] == 0, d[2] == 0, d[3] == 0))
	return d
}

func proposerDomain(tag string) []byte {
	d := vsym.Bytes("dom"+tag, 32)
	vsym.Assume(vsym.And(d[0] == 0, d[1] == 0, d[2] == 0, d[3] == 0))
	return d
}

// importRecord stores (S,T,P) for key (each -1 = none) through the exported import.
func importRecord(ctx context.Context, svc *standardrules.Service, key [48]byte, S, T, P int64) {
	hc.Must(svc.ImportSlashingProtection(ctx, map[[48]byte]*rules.SlashingProtection{
		key: {PubKey: key[:], HighestProposedSlot: P, HighestAttestedSourceEpoch: S, HighestAttestedTargetEpoch: T},
	}))
}

// wellFormedRecord: what a history of valid signings leaves behind: both -1, or 0 <= S <= T... the
// record holds the maxima of the sources and targets signed so far (S may equal T only at 0/0).
func wellFormedRecord(S, T int64) bool {
	return vsym.Or(vsym.And(S == -1, T == -1), vsym.And(S >= 0, T >= 0))
}

// L1Attest: an advancing, well-formed attestation is approved (single and batch-of-one paths).
func L1Attest() {
	ctx := context.Background()
	dir := vsym.TempDir("A")
	svc := hc.NewRules(ctx, dir)
	S, T := vsym.Int64("S"), vsym.Int64("T")
	vsym.Assume(wellFormedRecord(S, T))
	importRecord(ctx, svc, hc.KeyA, S, T, -1)
	s, t := vsym.Uint64("s"), vsym.Uint64("t")
	// the property's premise: target above every earlier target, source not below any earlier source,
	// target above source or both zero, epochs below 2^63
	vsym.Assume(vsym.And(s < max63, t < max63,
		vsym.Or(t > s, vsym.And(s == 0, t == 0)),
		vsym.Implies(T >= 0, t > uint64(T)),
		vsym.Implies(S >= 0, s >= uint64(S))))
	req := &rules.SignBeaconAttestationData{Domain: attesterDomain(""), Slot: vsym.Uint64("slot"), CommitteeIndex: vsym.Uint64("cidx"),
		BeaconBlockRoot: hc.Root, Source: &rules.Checkpoint{Epoch: s, Root: hc.Root}, Target: &rules.Checkpoint{Epoch: t, Root: hc.Root}}
	md := &rules.ReqMetadata{Account: "W/a", PubKey: hc.KeyA[:], Client: "c"}
	var res rules.Result
	if vsym.Choose("path", 2) == 0 {
		res = svc.OnSignBeaconAttestation(ctx, md, req)
	} else {
		rs := svc.OnSignBeaconAttestations(ctx, []*rules.ReqMetadata{md}, []*rules.SignBeaconAttestationData{req})
		vsym.Assert("V0-one-verdict", len(rs) == 1)
		res = rs[0]
	}
	vsym.Out("res", int(res))
	vsym.Reach("decided")
	vsym.Assert("V1-advancing-attestation-approved", res == rules.APPROVED)
	S2, T2, _ := hc.Exported(hc.ReopenAndExport(ctx, svc, dir), hc.KeyA)
	vsym.Assert("V2-record-holds-the-new-maxima", vsym.And(uint64(S2) == s, uint64(T2) == t))
}

// L1Propose: a proposal above every earlier slot is approved.
func L1Propose() {
	ctx := context.Background()
	dir := vsym.TempDir("A")
	svc := hc.NewRules(ctx, dir)
	P := vsym.Int64("P")
	vsym.Assume(P >= -1)
	importRecord(ctx, svc, hc.KeyA, -1, -1, P)
	slot := vsym.Uint64("slot")
	vsym.Assume(vsym.And(slot < max63, vsym.Implies(P >= 0, slot > uint64(P))))
	res := svc.OnSignBeaconProposal(ctx, &rules.ReqMetadata{Account: "W/a", PubKey: hc.KeyA[:], Client: "c"},
		&rules.SignBeaconProposalData{Domain: proposerDomain(""), Slot: slot, ProposerIndex: vsym.Uint64("pidx"), ParentRoot: hc.Root, StateRoot: hc.Root, BodyRoot: hc.Root})
	vsym.Out("res", int(res))
	vsym.Reach("decided")
	vsym.Assert("V1-advancing-proposal-approved", res == rules.APPROVED)
	_, _, P2 := hc.Exported(hc.ReopenAndExport(ctx, svc, dir), hc.KeyA)
	vsym.Assert("V2-record-holds-the-new-slot", uint64(P2) == slot)
}

var procs = []int{1, 2, 3, 4, 8}

// l2: the runner's verdicts for a batch of n well-formed entries with distinct keys equal,
// position by position, the verdicts of n single submissions from the same state; final records agree.
func l2(n int) {
	ctx := context.Background()
	vsym.SetGOMAXPROCS(procs[vsym.Choose("gomaxprocs", len(procs))])
	dirA, dirB := vsym.TempDir("A"), vsym.TempDir("B")
	svcA, svcB := hc.NewRules(ctx, dirA), hc.NewRules(ctx, dirB)
	rlA, rlB := hc.NewRuler(ctx, svcA), hc.NewRuler(ctx, svcB)
	var data []*ruler.RulesData
	for k := 0; k < n; k++ {
		tag := fmt.Sprintf("%d", k)
		S, T := vsym.Int64("S"+tag), vsym.Int64("T"+tag)
		vsym.Assume(wellFormedRecord(S, T))
		importRecord(ctx, svcA, hc.Keys[k], S, T, -1)
		importRecord(ctx, svcB, hc.Keys[k], S, T, -1)
		s, t := vsym.Uint64("s"+tag), vsym.Uint64("t"+tag)
		// well-formed request (it may or may not advance: both verdicts must agree)
		vsym.Assume(vsym.And(s < max63, t < max63))
		data = append(data, &ruler.RulesData{WalletName: "W", AccountName: fmt.Sprintf("a%d", k), PubKey: hc.Keys[k][:],
			Data: &rules.SignBeaconAttestationData{Domain: attesterDomain(tag), BeaconBlockRoot: hc.Root,
				Source: &rules.Checkpoint{Epoch: s, Root: hc.Root}, Target: &rules.Checkpoint{Epoch: t, Root: hc.Root}}})
	}
	batch := rlA.RunRules(ctx, hc.Creds(), ruler.ActionSignBeaconAttestation, data)
	vsym.Assert("E0-one-verdict-per-entry", len(batch) == n)
	if len(batch) != n {
		return
	}
	for k := 0; k < n; k++ {
		one := rlB.RunRules(ctx, hc.Creds(), ruler.ActionSignBeaconAttestation, data[k:k+1])
		vsym.Out(fmt.Sprintf("batch%d", k), int(batch[k]))
		vsym.Out(fmt.Sprintf("single%d", k), int(one[0]))
		vsym.Assert(fmt.Sprintf("E1-batch-verdict-equals-single[%d]", k), batch[k] == one[0])
		if batch[k] == rules.APPROVED {
			vsym.Reach("batch-entry-approved")
		} else {
			vsym.Reach("batch-entry-refused")
		}
	}
	exA, exB := hc.ReopenAndExport(ctx, svcA, dirA), hc.ReopenAndExport(ctx, svcB, dirB)
	for k := 0; k < n; k++ {
		SA, TA, _ := hc.Exported(exA, hc.Keys[k])
		SB, TB, _ := hc.Exported(exB, hc.Keys[k])
		vsym.Assert(fmt.Sprintf("E2-final-records-agree[%d]", k), vsym.And(SA == SB, TA == TB))
	}
}

func L2Batch1() { l2(1) }
func L2Batch2() { l2(2) }
func L2Batch3() { l2(3) }

// l4: the signer's batch endpoint gives, position by position, the result of the single endpoint.
func l4(n int) {
	ctx := context.Background()
	vsym.SetGOMAXPROCS(procs[vsym.Choose("gomaxprocs", len(procs))])
	logA, logB := &stubs.Log{}, &stubs.Log{}
	inA := hc.Start(ctx, vsym.TempDir("A"), logA, nil)
	inB := hc.Start(ctx, vsym.TempDir("B"), logB, nil)
	names := []string{"W/a", "W/b", "W/c"}[:n]
	var data []*rules.SignBeaconAttestationData
	for k := 0; k < n; k++ {
		tag := fmt.Sprintf("%d", k)
		S, T := vsym.Int64("S"+tag), vsym.Int64("T"+tag)
		vsym.Assume(wellFormedRecord(S, T))
		importRecord(ctx, inA.Rules, hc.Keys[k], S, T, -1)
		importRecord(ctx, inB.Rules, hc.Keys[k], S, T, -1)
		s, t := vsym.Uint64("s"+tag), vsym.Uint64("t"+tag)
		vsym.Assume(vsym.And(s < max63, t < max63))
		data = append(data, &rules.SignBeaconAttestationData{Domain: attesterDomain(tag), Slot: vsym.Uint64("slot" + tag), BeaconBlockRoot: hc.Root,
			Source: &rules.Checkpoint{Epoch: s, Root: hc.Root}, Target: &rules.Checkpoint{Epoch: t, Root: hc.Root}})
	}
	res, sigs := inA.Signer.SignBeaconAttestations(ctx, hc.Creds(), names, make([][]byte, n), data)
	vsym.Assert("F0-one-result-per-entry", vsym.And(len(res) == n, len(sigs) == n))
	if len(res) != n || len(sigs) != n {
		return
	}
	for k := 0; k < n; k++ {
		r1, s1 := inB.Signer.SignBeaconAttestation(ctx, hc.Creds(), names[k], nil, data[k])
		vsym.Out(fmt.Sprintf("batch%d", k), int(res[k]))
		vsym.Assert(fmt.Sprintf("F1-batch-result-equals-single[%d]", k), res[k] == r1)
		if res[k] == core.ResultSucceeded && r1 == core.ResultSucceeded {
			vsym.Reach("both-signed")
			vsym.Assert(fmt.Sprintf("F2-same-signature[%d]", k), vsym.BytesEq(sigs[k], s1))
		}
	}
}

func L4Batch1() { l4(1) }
func L4Batch2() { l4(2) }
func L4Batch3() { l4(3) }
