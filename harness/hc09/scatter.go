package hc09

import (
	"sort"
	"sync"

	"github.com/attestantio/dirk/util"
	"github.com/attestantio/dirk/zzverif/vsym"
)

type extent struct{ offset, entries int }

// l3Scatter: util.Scatter hands every index of [0,inputLen) to exactly one
// worker, for every input length and degree of parallelism in the range.
// inputLen and GOMAXPROCS are mathematical-integer symbols; paths are indexed
// by the resulting number of workers.
func l3Scatter(maxN, maxP int) {
	n := vsym.IntRange("n", 1, maxN)
	P := vsym.IntRange("P", 1, maxP)
	vsym.SetGOMAXPROCS(P)
	var seen []extent
	var mu sync.Mutex
	res, err := util.Scatter(n, func(offset int, entries int, _ *sync.RWMutex) (any, error) {
		mu.Lock()
		seen = append(seen, extent{offset, entries})
		mu.Unlock()
		return nil, nil
	})
	if !vsym.Symbolic() {
		// natively the workers run in any order; the executor starts them in creation order
		sort.Slice(seen, func(a, b int) bool { return seen[a].offset < seen[b].offset })
		sort.Slice(res, func(a, b int) bool { return res[a] != nil && res[b] != nil && res[a].Offset < res[b].Offset })
	}
	vsym.Assert("P0-no-error", err == nil)
	w := len(seen)
	vsym.Out("workers", w)
	vsym.Assert("P1-one-result-per-worker", len(res) == w)
	vsym.Assert("P2-workers-at-most-2P", w <= 2*P)
	if w == 0 {
		vsym.Assert("P3-some-worker", false)
		return
	}
	vsym.Reach("partitioned")
	if w > 1 {
		vsym.Reach("several-workers")
	}
	// consecutive, non-empty, from 0 to n (workers start in offset order under the sequential policy)
	vsym.Assert("P4-starts-at-zero", seen[0].offset == 0)
	for k := 0; k < w; k++ {
		vsym.Assert("P5-extent-non-empty", seen[k].entries > 0)
		if k+1 < w {
			vsym.Assert("P6-extents-consecutive", seen[k].offset+seen[k].entries == seen[k+1].offset)
		}
	}
	vsym.Assert("P7-ends-at-input-length", seen[w-1].offset+seen[w-1].entries == n)
	for k := range res {
		if res[k] != nil {
			vsym.Assert("P8-result-offset-is-a-worker-offset", res[k].Offset == seen[k].offset)
		} else {
			vsym.Assert("P9-result-present", false)
		}
	}
}

func L3ScatterP4()  { l3Scatter(1<<31-1, 4) }
func L3ScatterP16() { l3Scatter(1<<31-1, 16) }
func L3ScatterP32() { l3Scatter(1<<31-1, 32) }

// L3ScatterZero: non-positive lengths are refused without starting a worker.
func L3ScatterZero() {
	n := vsym.IntRange("n", -5, 0)
	called := false
	_, err := util.Scatter(n, func(offset int, entries int, _ *sync.RWMutex) (any, error) {
		called = true
		return nil, nil
	})
	vsym.Reach("refused")
	vsym.Assert("Z1-refused", vsym.And(err != nil, !called))
}
