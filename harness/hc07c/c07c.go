// Package hc07c: harnesses for C07(c): every service asks the checker about the account actually
// resolved, with the right operation, and a refusal has no effect at all.
package hc07c

import (
	"context"

	"github.com/attestantio/dirk/core"
	"github.com/attestantio/dirk/rules"
	standardaccountmanager "github.com/attestantio/dirk/services/accountmanager/standard"
	"github.com/attestantio/dirk/services/checker"
	standardlister "github.com/attestantio/dirk/services/lister/standard"
	"github.com/attestantio/dirk/services/ruler"
	standardwalletmanager "github.com/attestantio/dirk/services/walletmanager/standard"
	hc "github.com/attestantio/dirk/zzverif/hcommon"
	"github.com/attestantio/dirk/zzverif/stubs"
	"github.com/attestantio/dirk/zzverif/vsym"
	"github.com/herumi/bls-eth-go-binary/bls"
	e2wtypes "github.com/wealdtech/go-eth2-wallet-types/v2"
)

// aliasFetcher resolves foreign names ("Alias/x") and keys to the accounts of wallet W.
type aliasFetcher struct{ *stubs.Fetcher }

func (f *aliasFetcher) FetchAccount(ctx context.Context, path string) (e2wtypes.Wallet, e2wtypes.Account, error) {
	switch path {
	case "Alias/first":
		return f.Fetcher.FetchAccount(ctx, "W/a")
	case "alias/SECOND":
		return f.Fetcher.FetchAccount(ctx, "W/b")
	}
	return f.Fetcher.FetchAccount(ctx, path)
}

func (f *aliasFetcher) FetchWallet(ctx context.Context, path string) (e2wtypes.Wallet, error) {
	if path == "Alias" || path == "Alias/first" {
		return f.Fetcher.FetchWallet(ctx, "W")
	}
	return f.Fetcher.FetchWallet(ctx, path)
}

// recordingRuler counts calls into the real runner.
type recordingRuler struct {
	inner ruler.Service
	calls int
}

func (r *recordingRuler) RunRules(ctx context.Context, credentials *checker.Credentials, action string, data []*ruler.RulesData) []rules.Result {
	r.calls++
	return r.inner.RunRules(ctx, credentials, action, data)
}

type world struct {
	log   *stubs.Log
	in    *hc.Instance
	ruler *recordingRuler
	deny  bool
	dir   string
}

func newWorld(ctx context.Context) *world {
	w := &world{log: &stubs.Log{}, dir: vsym.TempDir("A")}
	w.deny = vsym.Choose("deny", 2) == 1
	rs := hc.NewRules(ctx, w.dir)
	w.ruler = &recordingRuler{inner: hc.NewRuler(ctx, rs)}
	wallet := stubs.NewWallet(w.log, "W", []string{"a", "b", "c"}, [][48]byte{hc.KeyA, hc.KeyB, hc.KeyC})
	f := &aliasFetcher{&stubs.Fetcher{Wallets: []*stubs.Wallet{wallet}, L: w.log}}
	ck := &stubs.Checker{L: w.log, Deny: func(client, account, op string) bool { return w.deny }}
	w.in = hc.Start(ctx, vsym.TempDir("unused"), w.log, &hc.Deps{Checker: ck, Fetcher: f, Ruler: w.ruler})
	w.in.Rules = rs
	w.in.Wallet = wallet
	// the first account starts locked so that an unlock attempt would show in the effect log
	wallet.Accts[0].(*stubs.Account).Unlocked = false
	return w
}

// addressing: how the request names account W/a
func address() (string, []byte) {
	switch vsym.Choose("addr", 3) {
	case 0:
		return "W/a", nil
	case 1:
		return "Alias/first", nil
	default:
		return "", hc.KeyA[:]
	}
}

func (w *world) checkAsked(op string, account string) {
	vsym.Assert("C1-checker-consulted-once", len(w.log.Checks) == 1)
	if len(w.log.Checks) == 1 {
		c := w.log.Checks[0]
		vsym.Assert("C2-decision-on-the-resolved-account", c.Account == account)
		vsym.Assert("C3-decision-on-the-right-operation", c.Op == op)
		vsym.Assert("C4-decision-for-the-authenticated-client", c.Client == "c")
	}
}

func (w *world) refusedWithoutEffect(ctx context.Context, res core.Result, sig []byte) {
	vsym.Reach("refused")
	vsym.Assert("R1-refused-result", res == core.ResultDenied)
	vsym.Assert("R2-no-signature", sig == nil)
	vsym.Assert("R3-no-effect-on-wallet-or-account", len(w.log.Events) == 0)
	vsym.Assert("R4-no-signing", len(w.log.Signs) == 0)
	vsym.Assert("R5-rules-not-consulted", w.ruler.calls == 0)
	ex := hc.ReopenAndExport(ctx, w.in.Rules, w.dir)
	vsym.Assert("R6-stored-state-unchanged", len(ex) == 0)
}

func attData() *rules.SignBeaconAttestationData {
	d := make([]byte, 32)
	d[0] = 1
	return &rules.SignBeaconAttestationData{Domain: d, BeaconBlockRoot: hc.Root, Source: &rules.Checkpoint{Epoch: 1, Root: hc.Root}, Target: &rules.Checkpoint{Epoch: 2, Root: hc.Root}}
}

func SignerEndpoints() {
	ctx := context.Background()
	w := newWorld(ctx)
	name, pk := address()
	var res core.Result
	var sig []byte
	op := ""
	gen := make([]byte, 32)
	gen[0] = 7
	switch vsym.Choose("endpoint", 5) {
	case 0:
		op = ruler.ActionSignBeaconAttestation
		res, sig = w.in.Signer.SignBeaconAttestation(ctx, hc.Creds(), name, pk, attData())
	case 1:
		op = ruler.ActionSignBeaconProposal
		res, sig = w.in.Signer.SignBeaconProposal(ctx, hc.Creds(), name, pk, &rules.SignBeaconProposalData{Domain: make([]byte, 32), Slot: 4, ParentRoot: hc.Root, StateRoot: hc.Root, BodyRoot: hc.Root})
	case 2:
		op = ruler.ActionSign
		res, sig = w.in.Signer.SignGeneric(ctx, hc.Creds(), name, pk, &rules.SignData{Domain: gen, Data: hc.Root})
	case 3:
		op = ruler.ActionSignBeaconAttestation
		rs, ss := w.in.Signer.SignBeaconAttestations(ctx, hc.Creds(), []string{name}, [][]byte{pk}, []*rules.SignBeaconAttestationData{attData()})
		if len(rs) == 1 {
			res = rs[0]
		}
		if len(ss) == 1 {
			sig = ss[0]
		}
	default:
		op = ruler.ActionSign
		rs, ss := w.in.Signer.Multisign(ctx, hc.Creds(), []string{name}, [][]byte{pk}, []*rules.SignData{{Domain: gen, Data: hc.Root}})
		if len(rs) == 1 {
			res = rs[0]
		}
		if len(ss) == 1 {
			sig = ss[0]
		}
	}
	vsym.Out("res", int(res))
	w.checkAsked(op, "W/a")
	if w.deny {
		w.refusedWithoutEffect(ctx, res, sig)
	} else {
		vsym.Reach("served")
		vsym.Assert("S1-permitted-request-served", vsym.And(res == core.ResultSucceeded, sig != nil))
	}
}

func AccountManager() {
	ctx := context.Background()
	w := newWorld(ctx)
	am, err := standardaccountmanager.New(ctx,
		standardaccountmanager.WithChecker(&stubs.Checker{L: w.log, Deny: func(client, account, op string) bool { return w.deny }}),
		standardaccountmanager.WithFetcher(&aliasFetcher{&stubs.Fetcher{Wallets: []*stubs.Wallet{w.in.Wallet}, L: w.log}}),
		standardaccountmanager.WithUnlocker(&stubs.Unlocker{L: w.log, Knows: true}),
		standardaccountmanager.WithRuler(w.ruler),
		standardaccountmanager.WithProcess(nopProcess{}),
	)
	hc.Must(err)
	name := []string{"W/a", "Alias/first"}[vsym.Choose("addr", 2)]
	var res core.Result
	op := ""
	if vsym.Choose("endpoint", 2) == 0 {
		op = ruler.ActionLockAccount
		res, _ = am.Lock(ctx, hc.Creds(), name)
	} else {
		op = ruler.ActionUnlockAccount
		res, _ = am.Unlock(ctx, hc.Creds(), name, []byte(""))
	}
	vsym.Out("res", int(res))
	w.checkAsked(op, "W/a")
	if w.deny {
		w.refusedWithoutEffect(ctx, res, nil)
	} else {
		vsym.Reach("served")
		vsym.Assert("S1-permitted-request-served", res == core.ResultSucceeded)
	}
}

func WalletManager() {
	ctx := context.Background()
	w := newWorld(ctx)
	wm, err := standardwalletmanager.New(ctx,
		standardwalletmanager.WithChecker(&stubs.Checker{L: w.log, Deny: func(client, account, op string) bool { return w.deny }}),
		standardwalletmanager.WithFetcher(&aliasFetcher{&stubs.Fetcher{Wallets: []*stubs.Wallet{w.in.Wallet}, L: w.log}}),
		standardwalletmanager.WithUnlocker(&stubs.Unlocker{L: w.log, Knows: true}),
		standardwalletmanager.WithRuler(w.ruler),
	)
	hc.Must(err)
	name := []string{"W", "Alias"}[vsym.Choose("addr", 2)]
	var res core.Result
	op := ""
	if vsym.Choose("endpoint", 2) == 0 {
		op = ruler.ActionLockWallet
		res, _ = wm.Lock(ctx, hc.Creds(), name)
	} else {
		op = ruler.ActionUnlockWallet
		res, _ = wm.Unlock(ctx, hc.Creds(), name, []byte(""))
	}
	vsym.Out("res", int(res))
	w.checkAsked(op, "W")
	if w.deny {
		w.refusedWithoutEffect(ctx, res, nil)
	} else {
		vsym.Reach("served")
		vsym.Assert("S1-permitted-request-served", res == core.ResultSucceeded)
	}
}

func Lister() {
	ctx := context.Background()
	w := newWorld(ctx)
	// per-account decision
	denyA, denyB := vsym.Choose("denyA", 2) == 1, vsym.Choose("denyB", 2) == 1
	ck := &stubs.Checker{L: w.log, Deny: func(client, account, op string) bool {
		return (account == "W/a" && denyA) || (account == "W/b" && denyB) || account == "W/c"
	}}
	ls, err := standardlister.New(ctx, standardlister.WithChecker(ck),
		standardlister.WithFetcher(&aliasFetcher{&stubs.Fetcher{Wallets: []*stubs.Wallet{w.in.Wallet}, L: w.log}}),
		standardlister.WithRuler(w.ruler))
	hc.Must(err)
	path := []string{"W", "Alias", "W/.*"}[vsym.Choose("path", 3)]
	res, accts := ls.ListAccounts(ctx, hc.Creds(), []string{path})
	vsym.Out("n", len(accts))
	vsym.Reach("listed")
	vsym.Assert("L1-listing-succeeds", res == core.ResultSucceeded)
	hasA, hasB, hasC := false, false, false
	for _, a := range accts {
		switch a.Name() {
		case "a":
			hasA = true
		case "b":
			hasB = true
		case "c":
			hasC = true
		}
	}
	vsym.Assert("L2-listed-iff-permitted", vsym.And(hasA == !denyA, hasB == !denyB, !hasC))
	for _, c := range w.log.Checks {
		vsym.Assert("L3-asked-about-canonical-names-and-access", vsym.And(c.Op == ruler.ActionAccessAccount, c.Client == "c",
			vsym.Or(c.Account == "W/a", c.Account == "W/b", c.Account == "W/c")))
	}
	vsym.Assert("L4-no-effect", vsym.And(len(w.log.Events) == 0, len(w.log.Signs) == 0))
}

// nopProcess satisfies the account manager's constructor; key generation is not exercised here.
type nopProcess struct{}

func (nopProcess) OnPrepare(ctx context.Context, sender uint64, account string, passphrase []byte, threshold uint32, participants []*core.Endpoint) error {
	return nil
}
func (nopProcess) OnExecute(ctx context.Context, sender uint64, account string) error { return nil }
func (nopProcess) OnCommit(ctx context.Context, sender uint64, account string, confirmationData []byte) ([]byte, []byte, error) {
	return nil, nil, nil
}
func (nopProcess) OnAbort(ctx context.Context, sender uint64, account string) error { return nil }
func (nopProcess) OnGenerate(ctx context.Context, credentials *checker.Credentials, account string, passphrase []byte, threshold uint32, numParticipants uint32) ([]byte, []*core.Endpoint, error) {
	return nil, nil, nil
}
func (nopProcess) OnContribute(ctx context.Context, sender uint64, account string, secret bls.SecretKey, vVec []bls.PublicKey) (bls.SecretKey, []bls.PublicKey, error) {
	return bls.SecretKey{}, nil, nil
}
