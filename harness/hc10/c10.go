package main

// Harnesses for C10 (importing slashing-protection data never weakens protection)
// and the command-level part of C11.  They live in package main (overlaid into
// the repository root) because the import/export commands are unexported there.

import (
	"context"
	"fmt"

	"github.com/attestantio/dirk/rules"
	hc "github.com/attestantio/dirk/zzverif/hcommon"
	"github.com/attestantio/dirk/zzverif/vsym"
	"github.com/spf13/viper"
)

const hc10GVR = "0x043db0d9a83813551ee2f33450d23797757d430911a9320530ad8a0eabc43efb"

func hc10Config(dir string) {
	viper.Set("storage-path", dir)
	viper.Set("genesis-validators-root", hc10GVR)
	viper.Set("server.rules.periodic-pruning", false)
	viper.Set("slashing-protection-file", "")
}

type hc10Rec struct{ S, T, P int64 }

func hc10Max(a, b int64) int64 { return vsym.IteI64(a > b, a, b) }

// hc10Prior writes an arbitrary well-formed prior record for key (or none) and returns it.
func hc10Prior(ctx context.Context, dir string, key [48]byte, tag string) hc10Rec {
	if vsym.Choose("prior"+tag, 2) == 0 {
		return hc10Rec{-1, -1, -1}
	}
	r := hc10Rec{vsym.Int64("S0" + tag), vsym.Int64("T0" + tag), vsym.Int64("P0" + tag)}
	vsym.Assume(vsym.And(r.S >= -1, r.T >= -1, r.P >= -1, (r.S == -1) == (r.T == -1)))
	rs := hc.NewRules(ctx, dir)
	hc.Must(rs.ImportSlashingProtection(ctx, map[[48]byte]*rules.SlashingProtection{
		key: {PubKey: key[:], HighestProposedSlot: r.P, HighestAttestedSourceEpoch: r.S, HighestAttestedTargetEpoch: r.T}}))
	hc.Must(rs.Close(ctx))
	return r
}

func hc10Export(ctx context.Context, dir string) map[[48]byte]*rules.SlashingProtection {
	rs := hc.NewRules(ctx, dir)
	ex, err := rs.ExportSlashingProtection(ctx)
	hc.Must(err)
	hc.Must(rs.Close(ctx))
	return ex
}

func hc10Key(k [48]byte) string { return fmt.Sprintf("%#x", k[:]) }

type hc10FileEntry struct {
	key      int // index into hc.Keys
	hasAtt   bool
	s, t     int64
	hasBlock bool
	slot     int64
}

// hc10Merge: an interchange file with `n` entries over keys {K1,K2} (repeats allowed), each with
// at most one attestation and one block, every number an arbitrary non-negative int64, imported
// over arbitrary prior records.
//
// keys: nil = the key of each entry is chosen among {K1,K2}; otherwise the key index per entry.
// full: entries always carry one attestation and one block (no presence choices).
// probe: whether phase 2 (a request against the real rules afterwards) is run.
func hc10Merge(n int, keys []int, full bool, probe bool) {
	bg := context.Background()
	dir := vsym.TempDir("A")
	hc10Config(dir)
	usesK2 := keys == nil
	for _, k := range keys {
		if k == 1 {
			usesK2 = true
		}
	}
	prior := []hc10Rec{hc10Prior(bg, dir, hc.Keys[0], "A"), {-1, -1, -1}}
	if usesK2 {
		prior[1] = hc10Prior(bg, dir, hc.Keys[1], "B")
	}
	file := &SlashingProtection{Metadata: &SlashingProtectionMetadata{InterchangeFormatVersion: "5", GenesisValidatorsRoot: hc10GVR}}
	var entries []hc10FileEntry
	for k := 0; k < n; k++ {
		tag := fmt.Sprintf("%d", k)
		e := hc10FileEntry{}
		if keys == nil {
			e.key = vsym.Choose("key"+tag, 2)
		} else {
			e.key = keys[k]
		}
		d := &SlashingProtectionData{PublicKey: hc10Key(hc.Keys[e.key])}
		if full || vsym.Choose("att"+tag, 2) == 1 {
			e.hasAtt = true
			ss, ts := vsym.DecimalInt64("fs"+tag), vsym.DecimalInt64("ft"+tag)
			e.s, e.t = vsym.ParseDecimal(ss), vsym.ParseDecimal(ts)
			vsym.Assume(vsym.And(e.s >= 0, e.t >= 0))
			d.SignedAttestations = []*SlashingProtectionAttestation{{SourceEpoch: ss, TargetEpoch: ts}}
		}
		if full || vsym.Choose("blk"+tag, 2) == 1 {
			e.hasBlock = true
			sl := vsym.DecimalInt64("fp" + tag)
			e.slot = vsym.ParseDecimal(sl)
			vsym.Assume(e.slot >= 0)
			d.SignedBlocks = []*SlashingProtectionProposal{{Slot: sl}}
		}
		file.Data = append(file.Data, d)
		entries = append(entries, e)
	}
	// class of the known finding F3 (kept for the record; the finding is fixed)
	ctx, cancel := context.WithCancel(bg)
	err := storeSlashingProtection(ctx, file)
	cancel()
	vsym.Settle()
	vsym.Out("err", err != nil)
	if err != nil {
		vsym.Reach("import-refused")
		return
	}
	vsym.Reach("import-succeeded")
	ex := hc10Export(bg, dir)
	for ki := 0; ki < 2; ki++ {
		S, T, P := hc.Exported(ex, hc.Keys[ki])
		tag := fmt.Sprintf("[K%d]", ki+1)
		vsym.Out("S"+tag, S)
		vsym.Out("T"+tag, T)
		vsym.Out("P"+tag, P)
		vsym.Assert("M1-import-never-lowers-existing"+tag, vsym.And(S >= prior[ki].S, T >= prior[ki].T, P >= prior[ki].P))
		for k, e := range entries {
			if e.key != ki {
				continue
			}
			if e.hasAtt {
				vsym.Assert(fmt.Sprintf("M2-record-covers-file-attestation[%d]", k), vsym.And(S >= e.s, T >= e.t))
			}
			if e.hasBlock {
				vsym.Assert(fmt.Sprintf("M3-record-covers-file-block[%d]", k), P >= e.slot)
			}
		}
	}
	if !probe {
		return
	}
	// phase 2: the real rules refuse what the file and the prior history forbid (key K1)
	rs := hc.NewRules(bg, dir)
	md := &rules.ReqMetadata{Account: "W/a", PubKey: hc.Keys[0][:], Client: "c"}
	if vsym.Choose("probe", 2) == 0 {
		slot := vsym.Uint64("pslot")
		dom := make([]byte, 32)
		res := rs.OnSignBeaconProposal(bg, md, &rules.SignBeaconProposalData{Domain: dom, Slot: slot, ParentRoot: hc.Root, StateRoot: hc.Root, BodyRoot: hc.Root})
		if res == rules.APPROVED {
			vsym.Reach("probe-proposal-approved")
			vsym.Assert("M4-proposal-at-or-below-known-slot-refused", vsym.Implies(prior[0].P >= 0, slot > uint64(prior[0].P)))
			for k, e := range entries {
				if e.key == 0 && e.hasBlock {
					vsym.Assert(fmt.Sprintf("M4-proposal-at-or-below-file-slot-refused[%d]", k), slot > uint64(e.slot))
				}
			}
		}
	} else {
		s, t := vsym.Uint64("ps"), vsym.Uint64("pt")
		dom := make([]byte, 32)
		dom[0] = 1
		res := rs.OnSignBeaconAttestation(bg, md, &rules.SignBeaconAttestationData{Domain: dom, BeaconBlockRoot: hc.Root,
			Source: &rules.Checkpoint{Epoch: s, Root: hc.Root}, Target: &rules.Checkpoint{Epoch: t, Root: hc.Root}})
		if res == rules.APPROVED {
			vsym.Reach("probe-attestation-approved")
			vsym.Assert("M5-attestation-within-known-history-refused", vsym.Implies(prior[0].S >= 0, vsym.And(t > uint64(prior[0].T), s >= uint64(prior[0].S))))
			for k, e := range entries {
				if e.key == 0 && e.hasAtt {
					vsym.Assert(fmt.Sprintf("M5-attestation-within-file-history-refused[%d]", k), vsym.And(t > uint64(e.t), s >= uint64(e.s)))
				}
			}
		}
	}
	_ = rs.Close(bg)
}

func HC10Merge1() { hc10Merge(1, nil, false, true) }

// HC10MergeRepeatedKey: the file names K1 twice (higher values first or second).
func HC10MergeRepeatedKey() { hc10Merge(2, []int{0, 0}, true, false) }

// HC10MergeTwoKeys: two keys in one file.
func HC10MergeTwoKeys() { hc10Merge(2, []int{0, 1}, true, false) }

// HC10Merge2: every shape of a two-entry file (thorough tier).
func HC10Merge2() { hc10Merge(2, nil, false, true) }

// HC10Metadata: a file with another interchange version or genesis validators root is rejected and changes nothing.
func HC10Metadata() {
	bg := context.Background()
	dir := vsym.TempDir("A")
	hc10Config(dir)
	prior := hc10Prior(bg, dir, hc.Keys[0], "A")
	versions := []string{"5", "4", "", "05"}
	roots := []string{hc10GVR, "0x" + hc10GVR[4:] + "00", "", hc10GVR[2:]}
	vi, ri := vsym.Choose("version", len(versions)), vsym.Choose("root", len(roots))
	file := &SlashingProtection{Metadata: &SlashingProtectionMetadata{InterchangeFormatVersion: versions[vi], GenesisValidatorsRoot: roots[ri]},
		Data: []*SlashingProtectionData{{PublicKey: hc10Key(hc.Keys[0]),
			SignedBlocks:       []*SlashingProtectionProposal{{Slot: "4611686018427387904"}},
			SignedAttestations: []*SlashingProtectionAttestation{{SourceEpoch: "4611686018427387903", TargetEpoch: "4611686018427387904"}}}}}
	if vsym.Choose("nometa", 3) == 0 {
		file.Metadata = nil
	}
	ctx, cancel := context.WithCancel(bg)
	err := storeSlashingProtection(ctx, file)
	cancel()
	vsym.Settle()
	good := file.Metadata != nil && vi == 0 && ri == 0
	vsym.Out("err", err != nil)
	if good {
		vsym.Reach("metadata-accepted")
		vsym.Assert("N0-matching-metadata-accepted", err == nil)
		return
	}
	vsym.Reach("metadata-rejected")
	vsym.Assert("N1-foreign-metadata-rejected", err != nil)
	S, T, P := hc.Exported(hc10Export(bg, dir), hc.Keys[0])
	vsym.Assert("N2-rejected-file-changes-nothing", vsym.And(S == prior.S, T == prior.T, P == prior.P))
}

// HC10LeadingZeros: numbers written with leading zeros (unusual, but decimal in the interchange format) are read
// as decimal: the import does not end below the values the file states (round-5 seed: base-0 parsing reads them as octal).
func HC10LeadingZeros() {
	bg := context.Background()
	dir := vsym.TempDir("A")
	hc10Config(dir)
	zeros := []string{"0", "00"}[vsym.Choose("zeros", 2)]
	field := vsym.Choose("field", 3)
	slot, src, tgt := "100", "50", "51"
	switch field {
	case 0:
		slot = zeros + slot
	case 1:
		src = zeros + src
	default:
		tgt = zeros + tgt
	}
	file := &SlashingProtection{Metadata: &SlashingProtectionMetadata{InterchangeFormatVersion: "5", GenesisValidatorsRoot: hc10GVR},
		Data: []*SlashingProtectionData{{PublicKey: hc10Key(hc.Keys[0]),
			SignedBlocks:       []*SlashingProtectionProposal{{Slot: slot}},
			SignedAttestations: []*SlashingProtectionAttestation{{SourceEpoch: src, TargetEpoch: tgt}}}}}
	ctx, cancel := context.WithCancel(bg)
	err := storeSlashingProtection(ctx, file)
	cancel()
	vsym.Settle()
	vsym.Out("err", err != nil)
	if err != nil {
		vsym.Reach("leading-zeros-rejected")
		return
	}
	vsym.Reach("leading-zeros-accepted")
	S, T, P := hc.Exported(hc10Export(bg, dir), hc.Keys[0])
	vsym.Assert("Z0-leading-zeros-read-as-decimal", vsym.And(S >= 50, T >= 51, P >= 100))
}

// HC10Malformed: a malformed key or number makes the import fail as a whole and changes nothing.
func HC10Malformed() {
	bg := context.Background()
	dir := vsym.TempDir("A")
	hc10Config(dir)
	prior := hc10Prior(bg, dir, hc.Keys[0], "A")
	bad := []string{"abc", "", "18446744073709551616", "9223372036854775808", "-", "1e3", " 7"}
	good := &SlashingProtectionData{PublicKey: hc10Key(hc.Keys[0]), SignedBlocks: []*SlashingProtectionProposal{{Slot: "4611686018427387904"}}}
	var broken *SlashingProtectionData
	switch vsym.Choose("what", 4) {
	case 0:
		broken = &SlashingProtectionData{PublicKey: "0xzz", SignedBlocks: []*SlashingProtectionProposal{{Slot: "5"}}}
	case 1:
		broken = &SlashingProtectionData{PublicKey: hc10Key(hc.Keys[1]), SignedBlocks: []*SlashingProtectionProposal{{Slot: bad[vsym.Choose("bad", len(bad))]}}}
	case 2:
		broken = &SlashingProtectionData{PublicKey: hc10Key(hc.Keys[1]), SignedAttestations: []*SlashingProtectionAttestation{{SourceEpoch: bad[vsym.Choose("bad", len(bad))], TargetEpoch: "9"}}}
	default:
		broken = &SlashingProtectionData{PublicKey: hc10Key(hc.Keys[1]), SignedAttestations: []*SlashingProtectionAttestation{{SourceEpoch: "3", TargetEpoch: bad[vsym.Choose("bad", len(bad))]}}}
	}
	file := &SlashingProtection{Metadata: &SlashingProtectionMetadata{InterchangeFormatVersion: "5", GenesisValidatorsRoot: hc10GVR}}
	if vsym.Choose("order", 2) == 0 {
		file.Data = []*SlashingProtectionData{good, broken}
	} else {
		file.Data = []*SlashingProtectionData{broken, good}
	}
	ctx, cancel := context.WithCancel(bg)
	err := storeSlashingProtection(ctx, file)
	cancel()
	vsym.Settle()
	vsym.Reach("malformed-submitted")
	vsym.Assert("Q1-malformed-file-rejected", err != nil)
	ex := hc10Export(bg, dir)
	S, T, P := hc.Exported(ex, hc.Keys[0])
	vsym.Assert("Q2-rejected-file-changes-nothing", vsym.And(S == prior.S, T == prior.T, P == prior.P, len(ex) <= 1))
}

// HC11CommandExport: the export command states, per key, exactly what the rules service exports.
func HC11CommandExport() {
	bg := context.Background()
	dir := vsym.TempDir("A")
	hc10Config(dir)
	r := hc10Rec{vsym.Int64("S0"), vsym.Int64("T0"), vsym.Int64("P0")}
	vsym.Assume(vsym.And(r.S >= -1, r.T >= -1, r.P >= -1, (r.S == -1) == (r.T == -1)))
	rs := hc.NewRules(bg, dir)
	hc.Must(rs.ImportSlashingProtection(bg, map[[48]byte]*rules.SlashingProtection{
		hc.Keys[0]: {PubKey: hc.Keys[0][:], HighestProposedSlot: r.P, HighestAttestedSourceEpoch: r.S, HighestAttestedTargetEpoch: r.T}}))
	hc.Must(rs.Close(bg))
	ctx, cancel := context.WithCancel(bg)
	out, err := fetchSlashingProtection(ctx)
	cancel()
	vsym.Settle()
	hc.Must(err)
	vsym.Reach("exported")
	vsym.Assert("C1-metadata", vsym.And(out.Metadata != nil, out.Metadata.InterchangeFormatVersion == "5", out.Metadata.GenesisValidatorsRoot == hc10GVR))
	if r.S == -1 && r.P == -1 {
		vsym.Assert("C2-nothing-recorded-nothing-exported", len(out.Data) == 0)
		return
	}
	vsym.Assert("C3-one-entry-for-the-key", vsym.And(len(out.Data) == 1, out.Data[0].PublicKey == hc10Key(hc.Keys[0])))
	if len(out.Data) != 1 {
		return
	}
	d := out.Data[0]
	if r.P != -1 {
		vsym.Assert("C4-slot-stated", vsym.And(len(d.SignedBlocks) == 1, vsym.ParseDecimal(d.SignedBlocks[0].Slot) == r.P))
	} else {
		vsym.Assert("C4-no-slot", len(d.SignedBlocks) == 0)
	}
	if r.S != -1 {
		vsym.Assert("C5-epochs-stated", vsym.And(len(d.SignedAttestations) == 1,
			vsym.ParseDecimal(d.SignedAttestations[0].SourceEpoch) == r.S, vsym.ParseDecimal(d.SignedAttestations[0].TargetEpoch) == r.T))
	} else {
		vsym.Assert("C5-no-epochs", len(d.SignedAttestations) == 0)
	}
}
