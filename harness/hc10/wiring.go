package main

// Harnesses for the way main.go assembles the services from the configuration (the service-level
// harnesses elsewhere construct the services themselves): what main.go's own start* functions build
// must behave like the configuration says.

import (
	"context"

	"github.com/attestantio/dirk/services/checker"
	"github.com/attestantio/dirk/zzverif/vsym"
	"github.com/spf13/viper"
)

// HC07StartChecker (C07): the checker that startChecker builds from the "permissions" configuration
// decides by the first item of an entry that bears on the operation, in the order the items are
// written in the configuration.
func HC07StartChecker() {
	ctx := context.Background()
	items := [][]string{{"~Sign", "All"}, {"All", "~Sign"}, {"None", "All"}, {"Sign", "None"}, {"~Unlock account", "~Lock account", "All"}, {"Access account"}}
	want := map[string][]bool{ // per item list: verdicts for Sign, Access account, Unlock account
		"0": {false, true, true}, "1": {true, true, true}, "2": {false, false, false}, "3": {true, false, false}, "4": {true, true, false}, "5": {false, true, false}}
	k := vsym.Choose("items", len(items))
	viper.Set("permissions", map[string]any{"client1": map[string][]string{"W/.*": items[k]}, "Client2": map[string][]string{"Other": {"All"}}})
	svc, err := startChecker(ctx, nil)
	vsym.Assert("W0-checker-starts", err == nil && svc != nil)
	if err != nil || svc == nil {
		return
	}
	vsym.Reach("checker-started-from-configuration")
	creds := &checker.Credentials{Client: "client1"}
	key := string(rune('0' + k))
	for j, op := range []string{"Sign", "Access account", "Unlock account"} {
		got := svc.Check(ctx, creds, "W/a", op)
		vsym.Assert("W1-decision-follows-the-configured-item-order["+op+"]", got == want[key][j])
	}
	vsym.Assert("W2-other-wallet-refused", !svc.Check(ctx, creds, "Other/a", "Sign"))
	vsym.Assert("W3-unconfigured-client-refused", !svc.Check(ctx, &checker.Credentials{Client: "stranger"}, "W/a", "Sign"))
}
