package main

// The daemon as main.go assembles it: the configuration is set in viper, the wallet store is a
// scratch store provisioned by the harness, secrets come from a stub majordomo, and main.go's own
// startServices builds and wires every service and starts the API server.  Requests are then
// delivered with vsym.Invoke through the real interceptor chain and handlers.

import (
	"context"
	"crypto/tls"
	"crypto/x509"
	"crypto/x509/pkix"
	"encoding/base64"
	"errors"
	"net"
	"time"

	hc "github.com/attestantio/dirk/zzverif/hcommon"
	"github.com/attestantio/dirk/zzverif/stubs"
	"github.com/attestantio/dirk/zzverif/vsym"
	"github.com/herumi/bls-eth-go-binary/bls"
	"github.com/spf13/viper"
	pb "github.com/wealdtech/eth2-signer-api/pb/v1"
	e2types "github.com/wealdtech/go-eth2-types/v2"
	e2wtypes "github.com/wealdtech/go-eth2-wallet-types/v2"
	"google.golang.org/grpc/credentials"
	"google.golang.org/grpc/peer"
)

type hcMajordomo struct{ values map[string][]byte }

func (m *hcMajordomo) Fetch(ctx context.Context, key string) ([]byte, error) {
	if v, ok := m.values[key]; ok {
		return v, nil
	}
	return nil, errors.New("majordomo: no such key " + key)
}

func hcLeafPEM(name string) []byte {
	return []byte("-----BEGIN CERTIFICATE-----\n" + base64.StdEncoding.EncodeToString([]byte("LEAF:"+name)) + "\n-----END CERTIFICATE-----\n")
}

var hcCAPEM = []byte("-----BEGIN CERTIFICATE-----\nQ0EgY2VydGlmaWNhdGUgb2YgdGhlIGNvbmZpZ3VyZWQgYXV0aG9yaXR5\n-----END CERTIFICATE-----\n")

type hcAssembled struct {
	log   *stubs.Log
	store *stubs.Store
	keys  map[string][]byte // account name -> its (share) public key
}

// hcCreateAccount imports a 2-of-2 share account into the distributed wallet of the store.
func (a *hcAssembled) createAccount(ctx context.Context, wallet *stubs.DWallet, name string) {
	hc.Must(wallet.Unlock(ctx, nil))
	var s0, s1, share bls.SecretKey
	s0.SetByCSPRNG()
	s1.SetByCSPRNG()
	id := bls.ID{}
	hc.Must(id.SetLittleEndian([]byte{1, 0, 0, 0, 0, 0, 0, 0}))
	hc.Must(share.Set([]bls.SecretKey{s0, s1}, &id))
	acc, err := wallet.ImportDistributedAccount(ctx, name, share.Serialize(), 2,
		[][]byte{s0.GetPublicKey().Serialize(), s1.GetPublicKey().Serialize()}, map[uint64]string{1: "signer-test01:8881", 2: "signer-test02:8882"}, []byte("pass"))
	hc.Must(err)
	hc.Must(wallet.Lock(ctx))
	a.keys[name] = acc.PublicKey().Marshal()
}

// addPlainAccount puts a stub account with a concrete key (no BLS arithmetic) into the wallet.
func (a *hcAssembled) addPlainAccount(wallet *stubs.DWallet, name string, key [48]byte) {
	shadow := &stubs.Wallet{N: wallet.N, Unlocked: true, L: a.log}
	acc := &stubs.Account{N: name, Key: key, Unlocked: true, Pass: "pass", W: shadow, L: a.log, FaultTag: name + ":"}
	acc.Id[0], acc.Id[1] = 0x21, byte(len(wallet.Accts))
	wallet.Accts = append(wallet.Accts, acc)
	a.keys[name] = key[:]
}

// hcAssemble configures viper and runs main.go's startServices.
func hcAssemble(ctx context.Context, permissions map[string]any, accounts []string) (*hcAssembled, error) {
	hc.Must(e2types.InitBLS())
	a := &hcAssembled{log: &stubs.Log{}, keys: map[string][]byte{}}
	w := stubs.NewDWallet(a.log, "Wallet1", "distributed", 1)
	a.store = &stubs.Store{N: "scratch", Ws: []*stubs.DWallet{w}}
	for k, n := range accounts {
		if len(n) > 0 && n[0] == 'p' {
			// "p..." accounts are plain stub accounts with the concrete keys KeyA, KeyB, KeyC
			a.addPlainAccount(w, n, hc.Keys[k%3])
			continue
		}
		a.createAccount(ctx, w, n)
	}
	stubs.PreparedScratchStores = []e2wtypes.Store{a.store}
	viper.Set("stores", []any{map[string]any{"name": "Local", "type": "scratch"}})
	viper.Set("storage-path", vsym.TempDir("main"))
	viper.Set("server.id", "1")
	viper.Set("server.name", "signer-test01")
	viper.Set("server.listen-address", "0.0.0.0:8881")
	viper.Set("server.rules.admin-ips", []string{"10.1.2.3"})
	viper.Set("server.rules.periodic-pruning", false)
	viper.Set("peers", map[string]string{"1": "signer-test01:8881", "2": "signer-test02:8882"})
	viper.Set("certificates.server-cert", "file:server.crt")
	viper.Set("certificates.server-key", "file:server.key")
	viper.Set("certificates.ca-cert", "file:ca.crt")
	viper.Set("permissions", permissions)
	viper.Set("unlocker.account-passphrases", []string{"file:account-pass"})
	viper.Set("process.generation-passphrase", "file:generation-pass")
	viper.Set("process.generation-timeout", time.Minute)
	md := &hcMajordomo{values: map[string][]byte{"file:server.crt": hcLeafPEM("signer-test01"), "file:server.key": []byte("key"), "file:ca.crt": hcCAPEM,
		"file:account-pass": []byte("pass"), "file:generation-pass": []byte("secret")}}
	monitor, err := startMonitor(ctx)
	if err != nil {
		return a, err
	}
	return a, startServices(ctx, md, monitor)
}

func hcCallCtx(ip net.IP, cn string) context.Context {
	certs := []*x509.Certificate{{Subject: pkix.Name{CommonName: cn}}}
	return peer.NewContext(context.Background(), &peer.Peer{Addr: &net.TCPAddr{IP: ip, Port: 40000},
		AuthInfo: credentials.TLSInfo{State: tls.ConnectionState{HandshakeComplete: true, PeerCertificates: certs, VerifiedChains: [][]*x509.Certificate{certs}}}})
}

// HCMainServes: the daemon assembled by main.go's startServices from the configuration serves a
// permitted client and refuses others: a generic signature for a permitted account, nothing for
// another client, an account outside the permission, or an operation the permission denies.
func HCMainServes() {
	ctx := context.Background()
	perms := map[string]any{"client1": map[string][]string{"Wallet1/acc1": {"~Unlock account", "All"}}}
	_, err := hcAssemble(ctx, perms, []string{"acc1", "acc2"})
	if err != nil {
		vsym.Out("start-error", err.Error())
	}
	vsym.Assert("M0-daemon-starts", err == nil)
	if err != nil {
		return
	}
	vsym.Assert("M1-serving-on-the-configured-address", vsym.Rec("served") == "1" && vsym.Rec("listens") == "tcp/0.0.0.0:8881")
	cn := []string{"client1", "stranger"}[vsym.Choose("cn", 2)]
	acct := []string{"Wallet1/acc1", "Wallet1/acc2"}[vsym.Choose("account", 2)]
	dom := make([]byte, 32)
	dom[0] = 7
	res, ierr := vsym.Invoke("/v1.Signer/Sign", hcCallCtx(net.IPv4(10, 0, 0, 9), cn), &pb.SignRequest{Id: &pb.SignRequest_Account{Account: acct}, Data: vsym.Bytes("data", 32), Domain: dom})
	vsym.Assert("M2-request-answered", ierr == nil && res != nil)
	if ierr != nil || res == nil {
		return
	}
	served := res.(*pb.SignResponse).GetState() == pb.ResponseState_SUCCEEDED
	if served {
		vsym.Reach("served-by-the-assembled-daemon")
	} else {
		vsym.Reach("refused-by-the-assembled-daemon")
	}
	vsym.Assert("M3-served-iff-permitted", served == (cn == "client1" && acct == "Wallet1/acc1"))
	// the denied operation stays denied for the permitted client
	ures, uerr := vsym.Invoke("/v1.AccountManager/Unlock", hcCallCtx(net.IPv4(10, 0, 0, 9), "client1"), &pb.UnlockAccountRequest{Account: "Wallet1/acc1", Passphrase: []byte("pass")})
	vsym.Assert("M4-denied-operation-refused", uerr != nil || ures.(*pb.UnlockAccountResponse).GetState() != pb.ResponseState_SUCCEEDED)
}

// HC15LockWalletDuringBatches (C15): on the daemon as main.go wires it, a wallet-lock request and
// attestation batches naming the wallet's accounts in either order, at the same time (every
// interleaving within the bound): all three requests are answered, nothing is left waiting.
func HC15LockWalletDuringBatches() {
	vsym.ForbidCrash()
	ctx := context.Background()
	perms := map[string]any{"client1": map[string][]string{"Wallet1": {"All"}}}
	_, err := hcAssemble(ctx, perms, []string{"pacc1", "pacc2"})
	vsym.Assert("M0-daemon-starts", err == nil)
	if err != nil {
		return
	}
	dom := make([]byte, 32)
	dom[0] = 1
	att := func(account string, s, t uint64) *pb.SignBeaconAttestationRequest {
		return &pb.SignBeaconAttestationRequest{Id: &pb.SignBeaconAttestationRequest_Account{Account: "Wallet1/" + account}, Domain: dom,
			Data: &pb.AttestationData{Slot: 1, BeaconBlockRoot: hc.Root, Source: &pb.Checkpoint{Epoch: s, Root: hc.Root}, Target: &pb.Checkpoint{Epoch: t, Root: hc.Root}}}
	}
	order := [][]string{{"pacc1", "pacc2"}, {"pacc2", "pacc1"}}[vsym.Choose("batch-order", 2)]
	cctx := hcCallCtx(net.IPv4(10, 0, 0, 9), "client1")
	answered := make([]bool, 3)
	vsym.Explore(2)
	vsym.Spawn(func() {
		_, e := vsym.Invoke("/v1.WalletManager/Lock", cctx, &pb.LockWalletRequest{Wallet: "Wallet1"})
		answered[0] = e == nil
	})
	vsym.Spawn(func() {
		_, e := vsym.Invoke("/v1.Signer/SignBeaconAttestations", cctx, &pb.SignBeaconAttestationsRequest{Requests: []*pb.SignBeaconAttestationRequest{att(order[0], 1, 2), att(order[1], 1, 2)}})
		answered[1] = e == nil
	})
	vsym.Spawn(func() {
		_, e := vsym.Invoke("/v1.Signer/SignBeaconAttestations", cctx, &pb.SignBeaconAttestationsRequest{Requests: []*pb.SignBeaconAttestationRequest{att(order[1], 3, 4), att(order[0], 3, 4)}})
		answered[2] = e == nil
	})
	vsym.Join()
	vsym.Sequential()
	vsym.Reach("all-requests-returned")
	vsym.Assert("M5-every-request-answered", answered[0] && answered[1] && answered[2])
}
