package hc01

import (
	"context"
	"fmt"

	"github.com/attestantio/dirk/rules"
	standardrules "github.com/attestantio/dirk/rules/standard"
	"github.com/attestantio/dirk/zzverif/vsym"
)

var keys = [][48]byte{keyA, keyB, keyC}

type entry struct {
	key      [48]byte
	S, T     int64
	hist     bool
	sh, th   uint64
	s, t     uint64
	differs  bool
	req      *rules.SignBeaconAttestationData
	metadata *rules.ReqMetadata
}

// mkEntry builds the symbolic pre-state, history witness and request for key k.
func mkEntry(ctx context.Context, svc *standardrules.Service, k int) *entry {
	tag := fmt.Sprintf("%d", k)
	e := &entry{key: keys[k]}
	e.S, e.T = preState(ctx, svc, e.key, tag)
	e.hist = vsym.Bool("hist" + tag)
	e.sh, e.th = vsym.Uint64("sh"+tag), vsym.Uint64("th"+tag)
	vsym.Assume(vsym.Implies(e.hist, vsym.And(e.S >= 0, e.T >= 0, e.sh <= uint64(e.S), e.th <= uint64(e.T))))
	e.s, e.t = vsym.Uint64("s"+tag), vsym.Uint64("t"+tag)
	e.differs = vsym.Bool("differs" + tag)
	e.req = &rules.SignBeaconAttestationData{
		Domain:          vsym.Bytes("dom"+tag, 32),
		Slot:            vsym.Uint64("slot" + tag),
		CommitteeIndex:  vsym.Uint64("cidx" + tag),
		BeaconBlockRoot: root,
		Source:          &rules.Checkpoint{Epoch: e.s, Root: root},
		Target:          &rules.Checkpoint{Epoch: e.t, Root: root},
	}
	e.metadata = &rules.ReqMetadata{Account: "W/a" + tag, PubKey: e.key[:], Client: "c"}
	vsym.FindingClass("F1-epoch-ge-2^63", vsym.Or(e.s >= 1<<63, e.t >= 1<<63))
	return e
}

// checkEntry states the inductive-step obligations for one entry given its verdict and the exported record.
func checkEntry(tag string, e *entry, res rules.Result, S2, T2 int64) {
	approved := res == rules.APPROVED
	if approved {
		vsym.Assert("A1-no-conflict-with-history"+tag, vsym.Implies(e.hist, vsym.Not(conflict(e.s, e.t, e.sh, e.th, e.differs))))
		vsym.Assert("A5-attester-domain-only"+tag, vsym.And(e.req.Domain[0] == 1, e.req.Domain[1] == 0, e.req.Domain[2] == 0, e.req.Domain[3] == 0))
	}
	inH := vsym.Or(e.hist, approved)
	vsym.Assert("A2-invariant-preserved"+tag, vsym.Implies(inH, vsym.And(S2 >= 0, T2 >= 0,
		vsym.Implies(e.hist, vsym.And(e.sh <= uint64(S2), e.th <= uint64(T2))),
		vsym.Implies(approved, vsym.And(e.s <= uint64(S2), e.t <= uint64(T2))))))
	if !approved {
		vsym.Assert("A6-refusal-leaves-record"+tag, vsym.And(S2 == e.S, T2 == e.T))
	}
}

func reopenAndExport(ctx context.Context, svc *standardrules.Service, dir string) map[[48]byte]*rules.SlashingProtection {
	if err := svc.Close(ctx); err != nil {
		vsym.Assume(false)
	}
	svc2, err := standardrules.New(ctx, standardrules.WithStoragePath(dir))
	if err != nil {
		vsym.Assume(false)
	}
	ex, err := svc2.ExportSlashingProtection(ctx)
	if err != nil {
		vsym.Assume(false)
	}
	_ = svc2.Close(ctx)
	return ex
}

func l1Batch(n int) {
	ctx := context.Background()
	dir := vsym.TempDir("A")
	svc, err := standardrules.New(ctx, standardrules.WithStoragePath(dir))
	if err != nil {
		vsym.Assume(false)
	}
	var es []*entry
	var mds []*rules.ReqMetadata
	var reqs []*rules.SignBeaconAttestationData
	for k := 0; k < n; k++ {
		e := mkEntry(ctx, svc, k)
		es = append(es, e)
		mds = append(mds, e.metadata)
		reqs = append(reqs, e.req)
	}
	res := svc.OnSignBeaconAttestations(ctx, mds, reqs)
	vsym.Assert("B0-one-verdict-per-entry", len(res) == n)
	if len(res) != n {
		return
	}
	for k := range res {
		vsym.Out(fmt.Sprintf("res%d", k), int(res[k]))
		if res[k] == rules.APPROVED {
			vsym.Reach("batch-approved")
		} else {
			vsym.Reach("batch-refused")
		}
	}
	ex := reopenAndExport(ctx, svc, dir)
	for k, e := range es {
		S2, T2, _ := exported(ex, e.key)
		vsym.Out(fmt.Sprintf("S2_%d", k), S2)
		vsym.Out(fmt.Sprintf("T2_%d", k), T2)
		checkEntry(fmt.Sprintf("[%d]", k), e, res[k], S2, T2)
	}
}

// L1Batch1..3: the batch rule, one inductive step for n distinct keys.
func L1Batch1() { l1Batch(1) }
func L1Batch2() { l1Batch(2) }
func L1Batch3() { l1Batch(3) }
