package hc01

import (
	"context"
	"fmt"

	"github.com/attestantio/dirk/core"
	"github.com/attestantio/dirk/rules"
	standardrules "github.com/attestantio/dirk/rules/standard"
	"github.com/attestantio/dirk/services/checker"
	"github.com/attestantio/dirk/services/signer"
	standardsigner "github.com/attestantio/dirk/services/signer/standard"
	"github.com/attestantio/dirk/zzverif/stubs"
	"github.com/attestantio/dirk/zzverif/vsym"
)

type released struct {
	s, t uint64
}

// instance is one Dirk "process": rules on a directory, runner, locker, signer over stub wallets.
type instance struct {
	rules  *standardrules.Service
	signer signer.Service
	log    *stubs.Log
}

func startInstance(ctx context.Context, dir string, log *stubs.Log) *instance {
	rs, err := standardrules.New(ctx, standardrules.WithStoragePath(dir))
	if err != nil {
		vsym.Assume(false)
	}
	w := stubs.NewWallet(log, "W", []string{"a", "b"}, [][48]byte{keyA, keyB})
	sg, err := standardsigner.New(ctx,
		standardsigner.WithChecker(&stubs.Checker{L: log}),
		standardsigner.WithFetcher(&stubs.Fetcher{Wallets: []*stubs.Wallet{w}, L: log}),
		standardsigner.WithUnlocker(&stubs.Unlocker{L: log, Knows: true}),
		standardsigner.WithRuler(mkRuler(ctx, rs)),
	)
	if err != nil {
		vsym.Assume(false)
	}
	return &instance{rules: rs, signer: sg, log: log}
}

func attData(tag string, s, t uint64) *rules.SignBeaconAttestationData {
	dom := vsym.Bytes("dom"+tag, 32)
	return &rules.SignBeaconAttestationData{
		Domain: dom, Slot: vsym.Uint64("slot" + tag), CommitteeIndex: vsym.Uint64("cidx" + tag), BeaconBlockRoot: root,
		Source: &rules.Checkpoint{Epoch: s, Root: root}, Target: &rules.Checkpoint{Epoch: t, Root: root},
	}
}

// fixedData is a well-formed attestation with concrete values (used for the
// other entries of a batch, whose verdict is not the subject).
func fixedData(s, t uint64) *rules.SignBeaconAttestationData {
	dom := make([]byte, 32)
	dom[0] = 1
	return &rules.SignBeaconAttestationData{Domain: dom, Slot: 7, CommitteeIndex: 3, BeaconBlockRoot: root,
		Source: &rules.Checkpoint{Epoch: s, Root: root}, Target: &rules.Checkpoint{Epoch: t, Root: root}}
}

// l3 runs k requests for account W/a through the real signer and asserts that
// no two released signatures for its key are slashable against each other.
func l3(k int, narrow bool) {
	ctx := context.Background()
	dir := vsym.TempDir("A")
	log := &stubs.Log{}
	in := startInstance(ctx, dir, log)
	S, T := preState(ctx, in.rules, keyA, "")
	// the pre-state itself stands for earlier signatures (sh,th) dominated by it
	hist := vsym.Bool("hist")
	sh, th := vsym.Uint64("sh"), vsym.Uint64("th")
	vsym.Assume(vsym.Implies(hist, vsym.And(S >= 0, T >= 0, sh <= uint64(S), th <= uint64(T))))
	creds := &checker.Credentials{Client: "c", RequestID: "r"}

	var rel []released
	for step := 0; step < k; step++ {
		tag := fmt.Sprintf("_%d", step)
		if step > 0 && vsym.Choose("restart"+tag, 2) == 1 {
			if err := in.rules.Close(ctx); err != nil {
				vsym.Assume(false)
			}
			in = startInstance(ctx, dir, log)
		}
		s, t := vsym.Uint64("s"+tag), vsym.Uint64("t"+tag)
		vsym.FindingClass("F1-epoch-ge-2^63", vsym.Or(s >= 1<<63, t >= 1<<63))
		// addressing: by name, by the exact public key, or by a longer byte string that still
		// resolves to the account (the fetcher only looks at the first 48 bytes)
		name, pk := "W/a", []byte(nil)
		nby, nep := 3, 3
		if narrow {
			// three steps: the first is a single request by name, the later ones are single or
			// batch, by name or by the over-long key
			nby, nep = 2, 2
			if step == 0 {
				nby, nep = 1, 1
			}
		}
		switch vsym.Choose("bykey"+tag, nby) {
		case 1:
			name, pk = "", append(append([]byte(nil), keyA[:]...), 0x00)
		case 2:
			name, pk = "", keyA[:]
		}
		nsigs := len(log.Signs)
		switch vsym.Choose("endpoint"+tag, nep) {
		case 0: // single
			res, sig := in.signer.SignBeaconAttestation(ctx, creds, name, pk, attData(tag, s, t))
			vsym.Assert("S1-signature-iff-succeeded", (sig != nil) == (res == core.ResultSucceeded))
			vsym.Out("single"+tag, int(res))
			if res == core.ResultSucceeded {
				vsym.Reach("single-released")
				rel = append(rel, released{s, t})
			}
		case 1: // batch [a, b]
			names, pks := []string{name, "W/b"}, [][]byte{pk, nil}
			res, sigs := in.signer.SignBeaconAttestations(ctx, creds, names, pks,
				[]*rules.SignBeaconAttestationData{attData(tag, s, t), fixedData(uint64(10*step+1), uint64(10*step+2))})
			if len(res) == 2 && len(sigs) == 2 {
				vsym.Out("batch0"+tag, int(res[0]))
				vsym.Out("batch1"+tag, int(res[1]))
				vsym.Assert("S1-signature-iff-succeeded", (sigs[0] != nil) == (res[0] == core.ResultSucceeded))
				if res[0] == core.ResultSucceeded {
					vsym.Reach("batch-released")
					rel = append(rel, released{s, t})
				}
			} else {
				vsym.Assert("S2-no-signature-without-result", len(sigs) == 0)
			}
		default: // batch naming the key twice (once by name, once by key)
			res, sigs := in.signer.SignBeaconAttestations(ctx, creds, []string{"W/a", ""}, [][]byte{nil, keyA[:]},
				[]*rules.SignBeaconAttestationData{attData(tag, s, t), fixedData(1<<40, 1<<41)})
			vsym.Reach("duplicate-batch")
			for i := range sigs {
				vsym.Assert("S3-duplicate-key-batch-unsigned", sigs[i] == nil)
			}
			for i := range res {
				vsym.Assert("S3-duplicate-key-batch-unsigned", res[i] != core.ResultSucceeded)
			}
		}
		// every signature produced for key A in this step belongs to a released result
		_ = nsigs
	}
	for i := range rel {
		vsym.Assert("L3-released-respects-history", vsym.Implies(hist, vsym.Not(conflict(rel[i].s, rel[i].t, sh, th, true))))
		for j := i + 1; j < len(rel); j++ {
			vsym.Reach("two-released")
			vsym.Assert("L3-no-two-released-conflict", vsym.Not(conflict(rel[i].s, rel[i].t, rel[j].s, rel[j].t, true)))
		}
	}
	// signatures handed out by the account equal the released results for key A
	nA := 0
	for _, sc := range log.Signs {
		if sc.Key == keyA {
			nA++
		}
	}
	vsym.Assert("L3-every-signing-was-released", nA == len(rel))
	vsym.Out("signs", len(log.Signs))
}

func L3Two()   { l3(2, false) }
func L3Three() { l3(3, true) }

// L3MixedPaths: one process, key A signed alternately through the single and the batch endpoint
// (single, batch, single / batch, single, batch) with arbitrary epochs: whatever the service keeps
// in memory between requests, no two released attestations conflict.
func L3MixedPaths() {
	ctx := context.Background()
	log := &stubs.Log{}
	in := startInstance(ctx, vsym.TempDir("A"), log)
	creds := &checker.Credentials{Client: "c", RequestID: "r"}
	first := vsym.Choose("first-endpoint", 2)
	var rel []released
	for step := 0; step < 3; step++ {
		tag := fmt.Sprintf("_%d", step)
		s, t := vsym.Uint64("s"+tag), vsym.Uint64("t"+tag)
		vsym.Assume(vsym.And(s < 1<<62, t < 1<<62))
		if (step+first)%2 == 0 {
			res, _ := in.signer.SignBeaconAttestation(ctx, creds, "W/a", nil, fixedAtt(s, t))
			if res == core.ResultSucceeded {
				rel = append(rel, released{s, t})
			}
		} else {
			res, _ := in.signer.SignBeaconAttestations(ctx, creds, []string{"W/a", "W/b"}, [][]byte{nil, nil},
				[]*rules.SignBeaconAttestationData{fixedAtt(s, t), fixedData(uint64(10*step+1), uint64(10*step+2))})
			if len(res) == 2 && res[0] == core.ResultSucceeded {
				rel = append(rel, released{s, t})
			}
		}
	}
	if len(rel) == 3 {
		vsym.Reach("three-released")
	}
	for i := range rel {
		for j := i + 1; j < len(rel); j++ {
			vsym.Assert("L3-no-two-released-conflict", vsym.Not(conflict(rel[i].s, rel[i].t, rel[j].s, rel[j].t, true)))
		}
	}
}

// fixedAtt: a well-formed attestation with the given (possibly symbolic) epochs and concrete other fields.
func fixedAtt(s, t uint64) *rules.SignBeaconAttestationData {
	dom := make([]byte, 32)
	dom[0] = 1
	return &rules.SignBeaconAttestationData{Domain: dom, Slot: 7, CommitteeIndex: 3, BeaconBlockRoot: root,
		Source: &rules.Checkpoint{Epoch: s, Root: root}, Target: &rules.Checkpoint{Epoch: t, Root: root}}
}
