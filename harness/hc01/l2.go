package hc01

import (
	"context"
	"fmt"

	"github.com/attestantio/dirk/rules"
	standardrules "github.com/attestantio/dirk/rules/standard"
	"github.com/attestantio/dirk/services/checker"
	"github.com/attestantio/dirk/services/locker/syncmap"
	"github.com/attestantio/dirk/services/ruler"
	"github.com/attestantio/dirk/services/ruler/golang"
	"github.com/attestantio/dirk/zzverif/vsym"
)

func mkRuler(ctx context.Context, rulesSvc rules.Service) ruler.Service {
	lock, err := syncmap.New(ctx)
	if err != nil {
		vsym.Assume(false)
	}
	r, err := golang.New(ctx, golang.WithLocker(lock), golang.WithRules(rulesSvc))
	if err != nil {
		vsym.Assume(false)
	}
	return r
}

// l2 drives the rules through the real runner (locking, duplicate-key rejection, batch fast path).
// Entry k uses key index pat[k]; a repeated index is a batch naming a key twice.
func l2(pat []int) {
	ctx := context.Background()
	dir := vsym.TempDir("A")
	svc, err := standardrules.New(ctx, standardrules.WithStoragePath(dir))
	if err != nil {
		vsym.Assume(false)
	}
	rl := mkRuler(ctx, svc)
	n := len(pat)
	dup := false
	seen := map[int]bool{}
	for _, p := range pat {
		if seen[p] {
			dup = true
		}
		seen[p] = true
	}
	// pre-state and witness per distinct key; request per entry
	byKey := map[int]*entry{}
	var es []*entry
	for k := 0; k < n; k++ {
		if first, ok := byKey[pat[k]]; ok {
			e := *first
			tag := fmt.Sprintf("r%d", k)
			e.s, e.t = vsym.Uint64("s"+tag), vsym.Uint64("t"+tag)
			e.req = &rules.SignBeaconAttestationData{Domain: vsym.Bytes("dom"+tag, 32), BeaconBlockRoot: root,
				Source: &rules.Checkpoint{Epoch: e.s, Root: root}, Target: &rules.Checkpoint{Epoch: e.t, Root: root}}
			es = append(es, &e)
			continue
		}
		e := mkEntry(ctx, svc, pat[k])
		byKey[pat[k]] = e
		es = append(es, e)
	}
	var data []*ruler.RulesData
	for k, e := range es {
		data = append(data, &ruler.RulesData{WalletName: "W", AccountName: fmt.Sprintf("a%d", k), PubKey: e.key[:], Data: e.req})
	}
	res := rl.RunRules(ctx, &checker.Credentials{Client: "c"}, ruler.ActionSignBeaconAttestation, data)
	vsym.Assert("B0-one-verdict-per-entry", len(res) == n)
	if len(res) != n {
		return
	}
	for k := range res {
		vsym.Out(fmt.Sprintf("res%d", k), int(res[k]))
	}
	ex := reopenAndExport(ctx, svc, dir)
	if dup {
		vsym.Reach("duplicate-key-batch")
		for k := range res {
			vsym.Assert(fmt.Sprintf("D1-duplicate-key-never-approved[%d]", k), res[k] != rules.APPROVED)
		}
		for _, e := range byKey {
			S2, T2, _ := exported(ex, e.key)
			vsym.Assert("D2-duplicate-key-leaves-records", vsym.And(S2 == e.S, T2 == e.T))
		}
		return
	}
	for k, e := range es {
		if res[k] == rules.APPROVED {
			vsym.Reach("runner-approved")
		}
		vsym.Assert(fmt.Sprintf("R1-verdict-definite[%d]", k), res[k] != rules.UNKNOWN)
		S2, T2, _ := exported(ex, e.key)
		checkEntry(fmt.Sprintf("[%d]", k), e, res[k], S2, T2)
	}
}

func L2Single()             { l2([]int{0}) }
func L2Pair()               { l2([]int{0, 1}) }
func L2PairDup()            { l2([]int{0, 0}) }
func L2Triple()             { l2([]int{0, 1, 2}) }
func L2TripleDupFirstLast() { l2([]int{0, 1, 0}) }
func L2TripleDupAdjacent()  { l2([]int{1, 0, 0}) }
