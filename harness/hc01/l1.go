// Package hc01: harnesses for C01 (no slashable attestation is ever signed).
package hc01

import (
	"context"

	"github.com/attestantio/dirk/rules"
	standardrules "github.com/attestantio/dirk/rules/standard"
	"github.com/attestantio/dirk/zzverif/vsym"
)

var (
	keyA = mkKey(0xa1)
	keyB = mkKey(0xb2)
	keyC = mkKey(0xc3)
	root = mkRoot(0x11)
)

func mkKey(b byte) [48]byte {
	var k [48]byte
	for i := range k {
		k[i] = b
	}
	k[47] = 0x01
	return k
}

func mkRoot(b byte) []byte {
	r := make([]byte, 32)
	for i := range r {
		r[i] = b
	}
	return r
}

func exported(ex map[[48]byte]*rules.SlashingProtection, key [48]byte) (int64, int64, int64) {
	if e, ok := ex[key]; ok && e != nil {
		return e.HighestAttestedSourceEpoch, e.HighestAttestedTargetEpoch, e.HighestProposedSlot
	}
	return -1, -1, -1
}

// conflict is the slashing predicate between two attestations (unsigned epochs).
// differs says the two attestations are different messages.
func conflict(s1, t1, s2, t2 uint64, differs bool) bool {
	return vsym.Or(
		vsym.And(t1 == t2, differs),
		vsym.And(s1 < s2, t2 < t1),
		vsym.And(s2 < s1, t1 < t2),
	)
}

// preState creates an arbitrary attestation record for key through the exported import.
// Returns the (S,T) the record holds (-1,-1 when absent).
func preState(ctx context.Context, svc *standardrules.Service, key [48]byte, tag string) (int64, int64) {
	switch vsym.Choose("pre"+tag, 2) {
	case 0:
		return -1, -1
	default:
		S, T := vsym.Int64("S"+tag), vsym.Int64("T"+tag)
		vsym.Assume(S != -1)
		err := svc.ImportSlashingProtection(ctx, map[[48]byte]*rules.SlashingProtection{
			key: {PubKey: key[:], HighestProposedSlot: -1, HighestAttestedSourceEpoch: S, HighestAttestedTargetEpoch: T},
		})
		vsym.Assume(err == nil)
		return S, T
	}
}

// L1Single: one inductive step of the single-attestation rule from an arbitrary
// record that satisfies the invariant with respect to an arbitrary earlier attestation.
func L1Single() {
	ctx := context.Background()
	dir := vsym.TempDir("A")
	svc, err := standardrules.New(ctx, standardrules.WithStoragePath(dir))
	if err != nil {
		vsym.Assume(false)
	}
	key := keyA
	S, T := preState(ctx, svc, key, "")

	// one arbitrary earlier (already released) attestation stands for the whole history
	hist := vsym.Bool("hist")
	sh, th := vsym.Uint64("sh"), vsym.Uint64("th")
	vsym.Assume(vsym.Implies(hist, vsym.And(S >= 0, T >= 0, sh <= uint64(S), th <= uint64(T))))

	s, t := vsym.Uint64("s"), vsym.Uint64("t")
	req := &rules.SignBeaconAttestationData{
		Domain:          vsym.Bytes("dom", 32),
		Slot:            vsym.Uint64("slot"),
		CommitteeIndex:  vsym.Uint64("cidx"),
		BeaconBlockRoot: root,
		Source:          &rules.Checkpoint{Epoch: s, Root: root},
		Target:          &rules.Checkpoint{Epoch: t, Root: root},
	}
	vsym.FindingClass("F1-epoch-ge-2^63", vsym.Or(s >= 1<<63, t >= 1<<63))
	res := svc.OnSignBeaconAttestation(ctx, &rules.ReqMetadata{Account: "W/a", PubKey: key[:], Client: "c"}, req)
	vsym.Out("res", int(res))

	differs := vsym.Bool("differs")
	if res == rules.APPROVED {
		vsym.Reach("approved")
		vsym.Assert("A1-no-conflict-with-history", vsym.Implies(hist, vsym.Not(conflict(s, t, sh, th, differs))))
		vsym.Assert("A5-attester-domain-only", vsym.And(req.Domain[0] == 1, req.Domain[1] == 0, req.Domain[2] == 0, req.Domain[3] == 0))
	} else {
		vsym.Reach("refused")
	}

	// the committed state, as seen by a fresh service on the same directory (restart)
	if err := svc.Close(ctx); err != nil {
		vsym.Assume(false)
	}
	svc2, err := standardrules.New(ctx, standardrules.WithStoragePath(dir))
	if err != nil {
		vsym.Assume(false)
	}
	ex, err := svc2.ExportSlashingProtection(ctx)
	if err != nil {
		vsym.Assume(false)
	}
	S2, T2, _ := exported(ex, key)
	vsym.Out("S2", S2)
	vsym.Out("T2", T2)
	_ = svc2.Close(ctx)
	approved := res == rules.APPROVED
	inH := vsym.Or(hist, approved)
	vsym.Assert("A2-invariant-preserved", vsym.Implies(inH, vsym.And(S2 >= 0, T2 >= 0,
		vsym.Implies(hist, vsym.And(sh <= uint64(S2), th <= uint64(T2))),
		vsym.Implies(approved, vsym.And(s <= uint64(S2), t <= uint64(T2))))))
	if !approved {
		vsym.Assert("A6-refusal-leaves-record", vsym.And(S2 == S, T2 == T))
	}
}
