// Package hcdkg: harnesses for the distributed key generation properties (C12, C13, C16, C17)
// over a cluster of real process services in one run.  A harness-side router stands in for the
// gRPC sender: it delivers each message by calling the target instance's On… method directly
// (optionally through the real receiver handlers) and can tamper with or lose messages.
//
// Under the symbolic executor the wallet libraries and BLS are models (harness/stubs/wallets.go,
// engine/symx/blsmodel.go); natively the same harness runs on the real libraries with a scratch store.
package hcdkg

import (
	"context"
	"errors"
	"fmt"
	"time"

	"github.com/attestantio/dirk/core"
	receiverhandler "github.com/attestantio/dirk/services/api/grpc/handlers/receiver"
	"github.com/attestantio/dirk/services/api/grpc/interceptors"
	"github.com/attestantio/dirk/services/fetcher"
	memfetcher "github.com/attestantio/dirk/services/fetcher/mem"
	staticpeers "github.com/attestantio/dirk/services/peers/static"
	standardprocess "github.com/attestantio/dirk/services/process/standard"
	hc "github.com/attestantio/dirk/zzverif/hcommon"
	"github.com/attestantio/dirk/zzverif/stubs"
	"github.com/attestantio/dirk/zzverif/vsym"
	"github.com/herumi/bls-eth-go-binary/bls"
	pb "github.com/wealdtech/eth2-signer-api/pb/v1"
	e2types "github.com/wealdtech/go-eth2-types/v2"
	distributed "github.com/wealdtech/go-eth2-wallet-distributed"
	keystorev4 "github.com/wealdtech/go-eth2-wallet-encryptor-keystorev4"
	scratch "github.com/wealdtech/go-eth2-wallet-store-scratch"
	e2wtypes "github.com/wealdtech/go-eth2-wallet-types/v2"
)

const walletName = "Test"

type node struct {
	id      uint64
	handler *receiverhandler.Handler
	proc    *standardprocess.Service
	store   e2wtypes.Store
	enc     e2wtypes.Encryptor
	fetcher fetcher.Service
	router  *router
}

type cluster struct {
	ids   []uint64
	nodes map[uint64]*node
	log   *stubs.Log
	ck    *stubs.Checker
	// message tampering
	fault      string // identity of the message tampered with ("" none): "prepare>2", "execute>3", "contribute 1>2"
	kind       int
	counter    int
	hit        bool
	deliveries []string
	prevSecret map[uint64]*bls.SecretKey // the last share each sender sent (to someone else)
	prevReply  map[uint64]*bls.SecretKey // the last share each recipient replied with (to someone else)
	// deliver through the real gRPC receiver handlers (authenticated caller name in the context)
	viaHandlers bool
	// commit requests to these participants are lost (C12 retry scenario)
	loseCommit map[uint64]bool
	// commit replies of these participants reach the initiator altered (C12 tampered commit replies)
	tamperCommitReply map[uint64]bool
	commitReplyKind   int
	// a non-peer caller sends every message first (it must be refused and change nothing)
	stranger                          string
	strangerRefused, strangerAccepted int
}

func peerMap(ids []uint64) map[uint64]string {
	m := map[uint64]string{}
	for k, id := range ids {
		m[id] = fmt.Sprintf("signer-test%02d:%d", k+1, 8881+k)
	}
	return m
}

func newCluster(ctx context.Context, ids []uint64, timeout time.Duration) *cluster {
	hc.Must(e2types.InitBLS())
	c := &cluster{ids: ids, nodes: map[uint64]*node{}, log: &stubs.Log{}}
	c.ck = &stubs.Checker{L: c.log}
	for k, id := range ids {
		n := &node{id: id}
		if vsym.Symbolic() {
			w := stubs.NewDWallet(c.log, walletName, "distributed", byte(k))
			n.store = &stubs.Store{N: fmt.Sprintf("store%d", id), Ws: []*stubs.DWallet{w}}
			n.enc = stubs.Encryptor{}
		} else {
			n.store = scratch.New()
			n.enc = keystorev4.New()
			_, err := distributed.CreateWallet(ctx, walletName, n.store, n.enc)
			hc.Must(err)
		}
		peers, err := staticpeers.New(ctx, staticpeers.WithPeers(peerMap(ids)))
		hc.Must(err)
		f, err := memfetcher.New(ctx, memfetcher.WithStores([]e2wtypes.Store{n.store}), memfetcher.WithEncryptor(n.enc))
		hc.Must(err)
		n.fetcher = f
		n.router = &router{c: c, from: id}
		p, err := standardprocess.New(ctx,
			standardprocess.WithChecker(c.ck),
			standardprocess.WithGenerationPassphrase([]byte("secret")),
			standardprocess.WithGenerationTimeout(timeout),
			standardprocess.WithID(id),
			standardprocess.WithPeers(peers),
			standardprocess.WithSender(n.router),
			standardprocess.WithFetcher(f),
			standardprocess.WithStores([]e2wtypes.Store{n.store}),
			standardprocess.WithUnlocker(&stubs.Unlocker{L: c.log, Knows: true}),
			standardprocess.WithEncryptor(n.enc),
		)
		hc.Must(err)
		n.proc = p
		h, err := receiverhandler.New(ctx, receiverhandler.WithPeers(peers), receiverhandler.WithProcess(p))
		hc.Must(err)
		n.handler = h
		c.nodes[id] = n
	}
	return c
}

// account returns the account `name` held by node id, or nil.
func (c *cluster) account(ctx context.Context, id uint64, name string) e2wtypes.Account {
	n := c.nodes[id]
	var w e2wtypes.Wallet
	var err error
	if vsym.Symbolic() {
		w, err = stubs.OpenWallet(n.store, walletName)
	} else {
		w, err = distributed.OpenWallet(ctx, walletName, n.store, n.enc)
	}
	if err != nil {
		return nil
	}
	a, err := w.(e2wtypes.WalletAccountByNameProvider).AccountByName(ctx, name)
	if err != nil {
		return nil
	}
	return a
}

// ---- the router: a sender.Service that delivers to the target instance ----

type router struct {
	c    *cluster
	from uint64
}

// message fault kinds
const (
	fLost = iota
	fErrorReply
	fShareReplaced
	fShareForOtherID
	fCommitmentAltered
	fVectorShortened
	fVectorExtended
	fVectorEmpty
	fDuplicate
	nFaultKinds
)

var errLost = errors.New("message lost")

// tamper reports whether the current delivery is the one chosen for tampering.
func (c *cluster) tamper(what string) bool {
	c.deliveries = append(c.deliveries, what)
	if what == c.fault && !c.hit {
		c.hit = true
		return true
	}
	return false
}

func (r *router) target(recipient *core.Endpoint) (*node, error) {
	n, ok := r.c.nodes[recipient.ID]
	if !ok {
		return nil, fmt.Errorf("unknown instance %d", recipient.ID)
	}
	return n, nil
}

func (r *router) Prepare(ctx context.Context, recipient *core.Endpoint, account string, passphrase []byte, threshold uint32, participants []*core.Endpoint) error {
	n, err := r.target(recipient)
	if err != nil {
		return err
	}
	if r.c.tamper(fmt.Sprintf("prepare>%d", recipient.ID)) {
		switch r.c.kind {
		case fLost:
			return errLost
		case fErrorReply:
			_ = n.proc.OnPrepare(ctx, r.from, account, passphrase, threshold, participants)
			return errors.New("error reply")
		case fDuplicate:
			_ = n.proc.OnPrepare(ctx, r.from, account, passphrase, threshold, participants)
		default:
			r.c.hit = false // this kind does not apply to prepare
		}
	}
	if r.c.viaHandlers {
		return r.hPrepare(ctx, n, account, passphrase, threshold, participants)
	}
	return n.proc.OnPrepare(ctx, r.from, account, passphrase, threshold, participants)
}

func (r *router) Execute(ctx context.Context, recipient *core.Endpoint, account string) error {
	n, err := r.target(recipient)
	if err != nil {
		return err
	}
	if r.c.tamper(fmt.Sprintf("execute>%d", recipient.ID)) {
		switch r.c.kind {
		case fLost:
			return errLost
		case fErrorReply:
			_ = n.proc.OnExecute(ctx, r.from, account)
			return errors.New("error reply")
		default:
			r.c.hit = false
		}
	}
	if r.c.viaHandlers {
		return r.hExecute(ctx, n, account)
	}
	return n.proc.OnExecute(ctx, r.from, account)
}

func (r *router) Commit(ctx context.Context, recipient *core.Endpoint, account string, confirmationData []byte) ([]byte, []byte, error) {
	n, err := r.target(recipient)
	if err != nil {
		return nil, nil, err
	}
	if r.c.loseCommit[recipient.ID] {
		return nil, nil, errors.New("injected: commit request lost")
	}
	if r.c.tamper(fmt.Sprintf("commit>%d", recipient.ID)) {
		r.c.hit = false // commit faults are not part of C13's fault family
	}
	var pub, sig []byte
	if r.c.viaHandlers {
		pub, sig, err = r.hCommit(ctx, n, account, confirmationData)
	} else {
		pub, sig, err = n.proc.OnCommit(ctx, r.from, account, confirmationData)
	}
	if err != nil || r.c.tamperCommitReply == nil || !r.c.tamperCommitReply[recipient.ID] {
		return pub, sig, err
	}
	// the reply direction of commit (C12): the participant's reply reaches the initiator altered
	var delta bls.SecretKey
	delta.SetByCSPRNG()
	switch r.c.commitReplyKind {
	case 0: // a confirmation signature that is not the participant's share signature over the data
		var orig bls.Sign
		if orig.Deserialize(sig) != nil {
			return pub, sig, err
		}
		forged := delta.SignByte(confirmationData)
		vsym.Assume(!forged.IsEqual(&orig))
		vsym.Reach("commit-reply-signature-tampered")
		return pub, forged.Serialize(), nil
	default: // a composite public key other than the one the others report
		var orig bls.PublicKey
		if orig.Deserialize(pub) != nil {
			return pub, sig, err
		}
		forged := delta.GetPublicKey()
		vsym.Assume(!forged.IsEqual(&orig))
		vsym.Reach("commit-reply-pubkey-tampered")
		return forged.Serialize(), sig, nil
	}
}

func (r *router) Abort(ctx context.Context, recipient *core.Endpoint, account string) error {
	n, err := r.target(recipient)
	if err != nil {
		return err
	}
	return n.proc.OnAbort(ctx, r.from, account)
}

func (r *router) SendContribution(ctx context.Context, recipient *core.Endpoint, account string, secret bls.SecretKey, vVec []bls.PublicKey) (bls.SecretKey, []bls.PublicKey, error) {
	n, err := r.target(recipient)
	if err != nil {
		return bls.SecretKey{}, nil, err
	}
	if r.c.tamper(fmt.Sprintf("contribute %d>%d", r.from, recipient.ID)) {
		switch r.c.kind {
		case fLost:
			return bls.SecretKey{}, nil, errLost
		case fErrorReply:
			_, _, _ = n.proc.OnContribute(ctx, r.from, account, secret, vVec)
			return bls.SecretKey{}, nil, errors.New("error reply")
		case fShareReplaced:
			var delta bls.SecretKey
			delta.SetByCSPRNG()
			vsym.Assume(!delta.IsZero())
			secret.Add(&delta)
		case fShareForOtherID:
			// the share this sender computed for another participant, with the sender's real vector
			if prev, ok := r.c.prevSecret[r.from]; ok {
				vsym.Assume(!prev.IsEqual(&secret)) // it really is another share
				secret = *prev
			} else {
				r.c.hit = false
			}
		case fCommitmentAltered:
			vVec = append([]bls.PublicKey(nil), vVec...)
			var delta bls.SecretKey
			delta.SetByCSPRNG()
			vsym.Assume(!delta.IsZero())
			vVec[len(vVec)-1].Add(delta.GetPublicKey())
		case fVectorShortened:
			// a shorter vector with a share that still verifies against it
			if len(vVec) < 2 {
				r.c.hit = false
			} else {
				secret, vVec = consistentContribution(recipient.ID, len(vVec)-1)
			}
		case fVectorExtended:
			secret, vVec = consistentContribution(recipient.ID, len(vVec)+1)
		case fVectorEmpty:
			// no commitments at all (the share is left as it is)
			vVec = []bls.PublicKey{}
		case fDuplicate:
			_, _, _ = n.proc.OnContribute(ctx, r.from, account, secret, vVec)
		}
	}
	if r.c.prevSecret == nil {
		r.c.prevSecret = map[uint64]*bls.SecretKey{}
	}
	keep := secret
	r.c.prevSecret[r.from] = &keep
	var back bls.SecretKey
	var backVec []bls.PublicKey
	var err2 error
	if r.c.viaHandlers {
		back, backVec, err2 = r.hContribute(ctx, n, account, secret, vVec)
	} else {
		back, backVec, err2 = n.proc.OnContribute(ctx, r.from, account, secret, vVec)
	}
	if err2 != nil {
		return back, backVec, err2
	}
	// the reply direction: what the recipient sends back to the executing instance
	if r.c.tamper(fmt.Sprintf("reply %d>%d", recipient.ID, r.from)) {
		switch r.c.kind {
		case fLost:
			return bls.SecretKey{}, nil, errLost
		case fErrorReply:
			return bls.SecretKey{}, nil, errors.New("error reply")
		case fShareReplaced:
			var delta bls.SecretKey
			delta.SetByCSPRNG()
			vsym.Assume(!delta.IsZero())
			back.Add(&delta)
		case fShareForOtherID:
			if prev, ok := r.c.prevReply[recipient.ID]; ok {
				vsym.Assume(!prev.IsEqual(&back))
				back = *prev
			} else {
				r.c.hit = false
			}
		case fCommitmentAltered:
			backVec = append([]bls.PublicKey(nil), backVec...)
			var delta bls.SecretKey
			delta.SetByCSPRNG()
			vsym.Assume(!delta.IsZero())
			backVec[len(backVec)-1].Add(delta.GetPublicKey())
		case fVectorShortened:
			if len(backVec) < 2 {
				r.c.hit = false
			} else {
				back, backVec = consistentContribution(r.from, len(backVec)-1)
			}
		case fVectorExtended:
			back, backVec = consistentContribution(r.from, len(backVec)+1)
		case fVectorEmpty:
			backVec = []bls.PublicKey{}
		default:
			r.c.hit = false
		}
	}
	if r.c.prevReply == nil {
		r.c.prevReply = map[uint64]*bls.SecretKey{}
	}
	keepBack := back
	r.c.prevReply[recipient.ID] = &keepBack
	return back, backVec, nil
}

// consistentContribution builds a fresh polynomial of `terms` coefficients and the share for id: it verifies.
func consistentContribution(id uint64, terms int) (bls.SecretKey, []bls.PublicKey) {
	sks := make([]bls.SecretKey, terms)
	vvec := make([]bls.PublicKey, terms)
	for k := range sks {
		sks[k].SetByCSPRNG()
		vvec[k] = *sks[k].GetPublicKey()
	}
	var share bls.SecretKey
	hc.Must(share.Set(sks, blsID(id)))
	return share, vvec
}

func blsID(id uint64) *bls.ID {
	var res bls.ID
	buf := make([]byte, 8)
	for k := 0; k < 8; k++ {
		buf[k] = byte(id >> (8 * k))
	}
	hc.Must(res.SetLittleEndian(buf))
	return &res
}

// messages lists the identities of the prepare/execute/contribute messages of a generation over ids.
func messages(ids []uint64) []string {
	var out []string
	for _, id := range ids {
		out = append(out, fmt.Sprintf("prepare>%d", id))
	}
	for _, id := range ids {
		out = append(out, fmt.Sprintf("execute>%d", id))
	}
	for _, a := range ids {
		for _, b := range ids {
			if b > a {
				out = append(out, fmt.Sprintf("contribute %d>%d", a, b))
				out = append(out, fmt.Sprintf("reply %d>%d", b, a))
			}
		}
	}
	return out
}

func peerName(ids []uint64, id uint64) string {
	for k, x := range ids {
		if x == id {
			return fmt.Sprintf("signer-test%02d", k+1)
		}
	}
	return "nobody"
}

func (c *cluster) callerCtx(ctx context.Context, name string) context.Context {
	return context.WithValue(ctx, &interceptors.ClientName{}, name)
}

func pbEndpoints(ps []*core.Endpoint) []*pb.Endpoint {
	out := make([]*pb.Endpoint, len(ps))
	for k, p := range ps {
		out[k] = &pb.Endpoint{Id: p.ID, Name: p.Name, Port: p.Port}
	}
	return out
}

func (c *cluster) note(err error) {
	if err != nil {
		c.strangerRefused++
	} else {
		c.strangerAccepted++
	}
}

// handler-level deliveries (what the gRPC sender and receiver do between two instances)
func (r *router) hPrepare(ctx context.Context, n *node, account string, passphrase []byte, threshold uint32, participants []*core.Endpoint) error {
	req := &pb.PrepareRequest{Account: account, Passphrase: passphrase, Threshold: threshold, Participants: pbEndpoints(participants)}
	if r.c.stranger != "" {
		_, err := n.handler.Prepare(r.c.callerCtx(ctx, r.c.stranger), req)
		r.c.note(err)
	}
	_, err := n.handler.Prepare(r.c.callerCtx(ctx, peerName(r.c.ids, r.from)), req)
	return err
}

func (r *router) hExecute(ctx context.Context, n *node, account string) error {
	req := &pb.ExecuteRequest{Account: account}
	if r.c.stranger != "" {
		_, err := n.handler.Execute(r.c.callerCtx(ctx, r.c.stranger), req)
		r.c.note(err)
		_, err = n.handler.Abort(r.c.callerCtx(ctx, r.c.stranger), &pb.AbortRequest{Account: account})
		r.c.note(err)
	}
	_, err := n.handler.Execute(r.c.callerCtx(ctx, peerName(r.c.ids, r.from)), req)
	return err
}

func (r *router) hCommit(ctx context.Context, n *node, account string, data []byte) ([]byte, []byte, error) {
	req := &pb.CommitRequest{Account: account, ConfirmationData: data}
	if r.c.stranger != "" {
		_, err := n.handler.Commit(r.c.callerCtx(ctx, r.c.stranger), req)
		r.c.note(err)
	}
	res, err := n.handler.Commit(r.c.callerCtx(ctx, peerName(r.c.ids, r.from)), req)
	if err != nil {
		return nil, nil, err
	}
	return res.GetPublicKey(), res.GetConfirmationSignature(), nil
}

func (r *router) hContribute(ctx context.Context, n *node, account string, secret bls.SecretKey, vVec []bls.PublicKey) (bls.SecretKey, []bls.PublicKey, error) {
	req := &pb.ContributeRequest{Account: account, Secret: secret.Serialize()}
	for k := range vVec {
		req.VerificationVector = append(req.VerificationVector, vVec[k].Serialize())
	}
	if r.c.stranger != "" {
		_, err := n.handler.Contribute(r.c.callerCtx(ctx, r.c.stranger), req)
		r.c.note(err)
	}
	res, err := n.handler.Contribute(r.c.callerCtx(ctx, peerName(r.c.ids, r.from)), req)
	if err != nil {
		return bls.SecretKey{}, nil, err
	}
	var back bls.SecretKey
	if err := back.Deserialize(res.GetSecret()); err != nil {
		return bls.SecretKey{}, nil, err
	}
	vv := make([]bls.PublicKey, len(res.GetVerificationVector()))
	for k, b := range res.GetVerificationVector() {
		if err := vv[k].Deserialize(b); err != nil {
			return bls.SecretKey{}, nil, err
		}
	}
	return back, vv, nil
}
