package hcdkg

import (
	"context"
	"fmt"
	"time"

	"github.com/attestantio/dirk/core"
	receiverhandler "github.com/attestantio/dirk/services/api/grpc/handlers/receiver"
	"github.com/attestantio/dirk/services/api/grpc/interceptors"
	"github.com/attestantio/dirk/services/checker"
	staticpeers "github.com/attestantio/dirk/services/peers/static"
	hc "github.com/attestantio/dirk/zzverif/hcommon"
	"github.com/attestantio/dirk/zzverif/vsym"
	"github.com/herumi/bls-eth-go-binary/bls"
	pb "github.com/wealdtech/eth2-signer-api/pb/v1"
	e2types "github.com/wealdtech/go-eth2-types/v2"
)

// recordingProcess records what reaches the process service.
type recordingProcess struct {
	calls   []string
	senders []uint64
}

func (p *recordingProcess) rec(what string, sender uint64) {
	p.calls = append(p.calls, what)
	p.senders = append(p.senders, sender)
}
func (p *recordingProcess) OnPrepare(ctx context.Context, sender uint64, account string, passphrase []byte, threshold uint32, participants []*core.Endpoint) error {
	p.rec("prepare", sender)
	return nil
}
func (p *recordingProcess) OnExecute(ctx context.Context, sender uint64, account string) error {
	p.rec("execute", sender)
	return nil
}
func (p *recordingProcess) OnCommit(ctx context.Context, sender uint64, account string, confirmationData []byte) ([]byte, []byte, error) {
	p.rec("commit", sender)
	return []byte{1}, []byte{2}, nil
}
func (p *recordingProcess) OnAbort(ctx context.Context, sender uint64, account string) error {
	p.rec("abort", sender)
	return nil
}
func (p *recordingProcess) OnGenerate(ctx context.Context, credentials *checker.Credentials, account string, passphrase []byte, threshold uint32, numParticipants uint32) ([]byte, []*core.Endpoint, error) {
	p.rec("generate", 0)
	return nil, nil, nil
}
func (p *recordingProcess) OnContribute(ctx context.Context, sender uint64, account string, secret bls.SecretKey, vVec []bls.PublicKey) (bls.SecretKey, []bls.PublicKey, error) {
	p.rec("contribute", sender)
	return bls.SecretKey{}, nil, nil
}

// ReceiverGate: the five protocol messages reach the process service only for an authenticated peer,
// and then with that peer's own identifier.
func ReceiverGate() {
	ctx := context.Background()
	hc.Must(e2types.InitBLS())
	ids := []uint64{1, 2, 1<<64 - 2}
	peers, err := staticpeers.New(ctx, staticpeers.WithPeers(peerMap(ids)))
	hc.Must(err)
	rp := &recordingProcess{}
	h, err := receiverhandler.New(ctx, receiverhandler.WithPeers(peers), receiverhandler.WithProcess(rp))
	hc.Must(err)
	callers := []string{"signer-test01", "signer-test02", "signer-test03", "client1", "stranger", "", "Signer-Test01", "signer-test01:8881", "signer-test0"}
	ci := vsym.Choose("caller", len(callers)+1)
	cctx := ctx
	wantID := uint64(0)
	if ci < len(callers) {
		cctx = context.WithValue(ctx, &interceptors.ClientName{}, callers[ci])
		if ci < 3 {
			wantID = ids[ci]
		}
	}
	share, vvec := consistentContribution(2, 2)
	accounts := []string{"Test/acc", "", "Test", "/"}
	acct := accounts[vsym.Choose("account", len(accounts))]
	var herr error
	msg := vsym.Choose("message", 5)
	switch msg {
	case 0:
		_, herr = h.Prepare(cctx, &pb.PrepareRequest{Account: acct, Passphrase: []byte("p"), Threshold: vsym.Uint32("threshold"),
			Participants: []*pb.Endpoint{{Id: 1, Name: "signer-test01", Port: 8881}}})
	case 1:
		_, herr = h.Execute(cctx, &pb.ExecuteRequest{Account: acct})
	case 2:
		_, herr = h.Contribute(cctx, &pb.ContributeRequest{Account: acct, Secret: share.Serialize(), VerificationVector: [][]byte{vvec[0].Serialize(), vvec[1].Serialize()}})
	case 3:
		_, herr = h.Commit(cctx, &pb.CommitRequest{Account: acct, ConfirmationData: vsym.Bytes("conf", 32)})
	default:
		_, herr = h.Abort(cctx, &pb.AbortRequest{Account: acct})
	}
	vsym.Out("refused", herr != nil)
	if wantID == 0 {
		vsym.Reach("non-peer")
		vsym.Assert("P1-non-peer-refused", herr != nil)
		vsym.Assert("P2-non-peer-changes-nothing", len(rp.calls) == 0)
		return
	}
	vsym.Reach("peer")
	vsym.Assert("P3-peer-message-acted-on-once", vsym.And(herr == nil, len(rp.calls) == 1))
	if len(rp.calls) == 1 {
		vsym.Assert("P4-acted-on-with-the-callers-own-identifier", rp.senders[0] == wantID)
		vsym.Assert("P5-the-right-operation", rp.calls[0] == []string{"prepare", "execute", "contribute", "commit", "abort"}[msg])
	}
}

// GenerateThroughHandlers: a whole generation delivered through the real receiver handlers while a
// non-peer (an ordinary, fully permitted client or an unknown name) sends every message first: all of
// its messages are refused and the generation completes.
func generateThroughHandlers(ids []uint64, t uint32, stranger string) {
	vsym.ForbidCrash()
	ctx := context.Background()
	c := newCluster(ctx, ids, 70*time.Second)
	c.viaHandlers = true
	c.stranger = stranger
	pub, _, err := c.nodes[ids[0]].proc.OnGenerate(ctx, hc.Creds(), walletName+"/acc", passphrase, t, uint32(len(ids)))
	vsym.Out("err", err != nil)
	vsym.Reach("ran")
	vsym.Assert("H1-generation-completes-despite-strangers", vsym.And(err == nil, len(pub) > 0))
	vsym.Assert("H2-every-stranger-message-refused", c.strangerAccepted == 0)
	if stranger != "" {
		vsym.Assert("H3-strangers-did-try", c.strangerRefused > 0)
	}
	for _, id := range ids {
		vsym.Assert(fmt.Sprintf("H4-account-on-%d", id), c.account(ctx, id, "acc") != nil)
	}
}

func GenerateThroughHandlers()             { generateThroughHandlers(idsSmall[:3], 2, "") }
func GenerateThroughHandlersWithClient()   { generateThroughHandlers(idsSmall[:3], 2, "client1") }
func GenerateThroughHandlersWithStranger() { generateThroughHandlers(idsLarge[:3], 3, "stranger") }

// ShareOwnership: the reply to a contribution carries the share computed for the authenticated
// caller's own identifier: it verifies against the replier's vector at the caller's id.
func ShareOwnership() {
	ctx := context.Background()
	ids := []uint64{1, 2, 1<<63 + 5}
	c := newCluster(ctx, ids, 70*time.Second)
	ri := vsym.Choose("replier", 3)
	replier := c.nodes[ids[ri]]
	parts := []*core.Endpoint{}
	for k, id := range ids {
		parts = append(parts, &core.Endpoint{ID: id, Name: fmt.Sprintf("signer-test%02d", k+1), Port: uint32(8881 + k)})
	}
	hc.Must(replier.proc.OnPrepare(ctx, ids[0], walletName+"/acc", passphrase, 2, parts))
	cj := vsym.Choose("caller", 3)
	if cj == ri {
		vsym.Assume(false)
	}
	caller := ids[cj]
	share, vvec := consistentContribution(replier.id, 2)
	req := &pb.ContributeRequest{Account: walletName + "/acc", Secret: share.Serialize(), VerificationVector: [][]byte{vvec[0].Serialize(), vvec[1].Serialize()}}
	res, err := replier.handler.Contribute(c.callerCtx(ctx, peerName(ids, caller)), req)
	hc.Must(err)
	vsym.Reach("replied")
	var got bls.SecretKey
	hc.Must(got.Deserialize(res.GetSecret()))
	rv := make([]bls.PublicKey, len(res.GetVerificationVector()))
	for k, b := range res.GetVerificationVector() {
		hc.Must(rv[k].Deserialize(b))
	}
	var at bls.PublicKey
	hc.Must(at.Set(rv, blsID(caller)))
	vsym.Assert("O1-reply-is-the-callers-own-share", got.GetPublicKey().IsEqual(&at))
	// and it is, in general, not another participant's share
	for k, id := range ids {
		if k == cj || k == ri {
			continue
		}
		var other bls.PublicKey
		hc.Must(other.Set(rv, blsID(id)))
		if !got.GetPublicKey().IsEqual(&other) {
			vsym.Reach("not-another-participants-share")
		}
	}
}

// ShareOwnershipNonParticipant: a configured peer that is not a participant of the running
// generation gets no participant's share in the reply to its contribution.
func ShareOwnershipNonParticipant() {
	ctx := context.Background()
	ids := []uint64{1, 2, 3, 1<<63 + 5}
	c := newCluster(ctx, ids, 70*time.Second)
	ri := vsym.Choose("replier", 3)
	replier := c.nodes[ids[ri]]
	parts := []*core.Endpoint{}
	for k, id := range ids[:3] {
		parts = append(parts, &core.Endpoint{ID: id, Name: fmt.Sprintf("signer-test%02d", k+1), Port: uint32(8881 + k)})
	}
	hc.Must(replier.proc.OnPrepare(ctx, ids[0], walletName+"/acc", passphrase, 2, parts))
	outsider := ids[3]
	share, vvec := consistentContribution(replier.id, 2)
	req := &pb.ContributeRequest{Account: walletName + "/acc", Secret: share.Serialize(), VerificationVector: [][]byte{vvec[0].Serialize(), vvec[1].Serialize()}}
	res, err := replier.handler.Contribute(c.callerCtx(ctx, peerName(ids, outsider)), req)
	if err != nil {
		vsym.Reach("outsider-refused")
		return
	}
	vsym.Reach("outsider-answered")
	var got bls.SecretKey
	hc.Must(got.Deserialize(res.GetSecret()))
	rv := make([]bls.PublicKey, len(res.GetVerificationVector()))
	for k, b := range res.GetVerificationVector() {
		hc.Must(rv[k].Deserialize(b))
	}
	// whatever the outsider receives, it is its own share (the polynomial at its own id) or nothing:
	// never the polynomial evaluated at a participant's id
	var own bls.PublicKey
	hc.Must(own.Set(rv, blsID(outsider)))
	vsym.Assert("O2-outsider-gets-nothing-or-its-own-share", vsym.Or(got.IsZero(), got.GetPublicKey().IsEqual(&own)))
}
