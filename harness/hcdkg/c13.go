package hcdkg

import (
	"context"
	"fmt"
	"time"

	hc "github.com/attestantio/dirk/zzverif/hcommon"
	"github.com/attestantio/dirk/zzverif/vsym"
)

// faulty: one message of the prepare/execute/contribute sequence is tampered with (every position x
// every fault kind); the generation must end with an error, no instance may hold the account and
// no instance may crash.
func faulty(ids []uint64, t uint32, initiator int) {
	vsym.ForbidCrash()
	ctx := context.Background()
	c := newCluster(ctx, ids, 70*time.Second)
	msgs := messages(ids)
	c.fault = msgs[vsym.Choose("message", len(msgs))]
	c.kind = vsym.Choose("kind", nFaultKinds)
	_, _, err := c.nodes[ids[initiator]].proc.OnGenerate(ctx, hc.Creds(), walletName+"/acc", passphrase, t, uint32(len(ids)))
	vsym.Out("err", err != nil)
	if !c.hit {
		// the chosen fault does not apply at that position (or the sequence ended earlier): an honest run
		vsym.Reach("fault-not-applicable")
		return
	}
	vsym.Reach("fault-injected")
	if c.kind == fDuplicate {
		// a message delivered twice is not an invalid contribution: the generation may succeed, but then
		// consistently (all instances hold the account), or fail, and then nobody holds it
		for _, id := range ids {
			vsym.Assert(fmt.Sprintf("X3-duplicate-delivery-all-or-nothing-on-%d", id), (c.account(ctx, id, "acc") != nil) == (err == nil))
		}
		return
	}
	vsym.Assert("X1-faulty-exchange-ends-with-an-error", err != nil)
	for _, id := range ids {
		vsym.Assert(fmt.Sprintf("X2-no-account-on-%d", id), c.account(ctx, id, "acc") == nil)
	}
}

func Faulty2of2() { faulty(idsSmall[:2], 2, 0) }
func Faulty2of3() { faulty(idsSmall[:3], 2, 1) }
func Faulty3of3() { faulty(idsLarge[:3], 3, 0) }
func Faulty3of4() { faulty(idsSmall[:4], 3, 2) }
