package hcdkg

import (
	"context"
	"fmt"
	"time"

	hc "github.com/attestantio/dirk/zzverif/hcommon"
	"github.com/attestantio/dirk/zzverif/vsym"
	"github.com/herumi/bls-eth-go-binary/bls"
	e2types "github.com/wealdtech/go-eth2-types/v2"
	e2wtypes "github.com/wealdtech/go-eth2-wallet-types/v2"
)

var passphrase = []byte("pass")

func blsPub(k e2types.PublicKey) bls.PublicKey {
	var pk bls.PublicKey
	hc.Must(pk.Deserialize(k.Marshal()))
	return pk
}

// subsets of size t of {0..n-1}
func subsets(n, t int) [][]int {
	var out [][]int
	var rec func(start int, cur []int)
	rec = func(start int, cur []int) {
		if len(cur) == t {
			out = append(out, append([]int(nil), cur...))
			return
		}
		for k := start; k < n; k++ {
			rec(k+1, append(cur, k))
		}
	}
	rec(0, nil)
	return out
}

// generate runs a complete honest generation and checks everything C12 promises.
func generate(ids []uint64, t uint32, initiator int) { generateOrd(ids, t, initiator, false) }

func generateOrd(ids []uint64, t uint32, initiator int, allOrders bool) {
	vsym.ForbidCrash()
	ctx := context.Background()
	c := newCluster(ctx, ids, 70*time.Second)
	if allOrders {
		// the parallel commit replies arrive in every order
		vsym.DeferGoroutines(true)
		vsym.ForkGoroutineOrder(true)
	}
	n := uint32(len(ids))
	pub, parts, err := c.nodes[ids[initiator]].proc.OnGenerate(ctx, hc.Creds(), walletName+"/acc", passphrase, t, n)
	vsym.Out("err", err != nil)
	vsym.Assert("G0-honest-generation-succeeds", err == nil)
	if err != nil {
		return
	}
	vsym.Reach("generated")
	checkConsistent(ctx, c, ids, t, pub, len(parts))
}

// checkConsistent: after a generation reported as successful every participant holds the account, all
// of them hold shares of ONE key (the returned composite key) with the requested threshold, and every
// threshold-sized subset signs for it.
func checkConsistent(ctx context.Context, c *cluster, ids []uint64, t uint32, pub []byte, nparts int) {
	vsym.Assert("G1-all-participants-listed", nparts == len(ids))
	var accts []e2wtypes.Account
	for _, id := range ids {
		a := c.account(ctx, id, "acc")
		vsym.Assert(fmt.Sprintf("G2-account-exists-on-%d", id), a != nil)
		if a == nil {
			return
		}
		accts = append(accts, a)
		da, ok := a.(e2wtypes.DistributedAccount)
		vsym.Assert("G3-distributed-account", ok)
		if !ok {
			return
		}
		vsym.Assert(fmt.Sprintf("G4-composite-key-is-the-returned-one-on-%d", id), vsym.BytesEq(da.CompositePublicKey().Marshal(), pub))
		vsym.Assert("G5-threshold-recorded", da.SigningThreshold() == t)
		vsym.Assert("G6-participants-recorded", len(da.Participants()) == len(ids))
		for _, pid := range ids {
			_, listed := da.Participants()[pid]
			vsym.Assert("G6-participants-recorded", listed)
		}
		vv := a.(e2wtypes.AccountVerificationVectorProvider).VerificationVector()
		vsym.Assert("G7-verification-vector-has-threshold-entries", len(vv) == int(t))
		// the share is consistent with the vector: share*G = sum vvec[k]*id^k
		vec := make([]bls.PublicKey, len(vv))
		for k := range vv {
			vec[k] = blsPub(vv[k])
		}
		var expect bls.PublicKey
		hc.Must(expect.Set(vec, blsID(id)))
		own := blsPub(a.PublicKey())
		vsym.Assert(fmt.Sprintf("G8-share-consistent-with-vector-on-%d", id), own.IsEqual(&expect))
		// same vector everywhere
		if len(accts) > 1 {
			vv0 := accts[0].(e2wtypes.AccountVerificationVectorProvider).VerificationVector()
			for k := range vv {
				vsym.Assert("G9-same-verification-vector-everywhere", vsym.BytesEq(vv[k].Marshal(), vv0[k].Marshal()))
			}
		}
		// usable at once for signing and listing on this participant
		_, fa, ferr := c.nodes[id].fetcher.FetchAccount(ctx, walletName+"/acc")
		vsym.Assert("G10-account-fetchable-by-name", ferr == nil && fa != nil)
		_, fk, kerr := c.nodes[id].fetcher.FetchAccountByKey(ctx, a.PublicKey().Marshal())
		vsym.Assert("G11-account-fetchable-by-key", kerr == nil && fk != nil)
	}
	// any t participants produce a signature valid under the composite key
	msg := hc.MkRoot(0x5a)
	composite := blsPub(accts[0].(e2wtypes.DistributedAccount).CompositePublicKey())
	var partial []bls.Sign
	for k, a := range accts {
		hc.Must(a.(e2wtypes.AccountLocker).Unlock(ctx, passphrase))
		sig, serr := a.(e2wtypes.AccountSigner).Sign(ctx, msg)
		hc.Must(serr)
		var s bls.Sign
		hc.Must(s.Deserialize(sig.Marshal()))
		partial = append(partial, s)
		_ = k
	}
	for _, sub := range subsets(len(ids), int(t)) {
		sigs := make([]bls.Sign, len(sub))
		sids := make([]bls.ID, len(sub))
		for k, idx := range sub {
			sigs[k] = partial[idx]
			sids[k] = *blsID(ids[idx])
		}
		var rec bls.Sign
		hc.Must(rec.Recover(sigs, sids))
		vsym.Reach("threshold-subset-checked")
		vsym.Assert("G12-any-threshold-subset-signs-for-the-composite-key", rec.VerifyByte(&composite, msg))
	}
	// the degree statement only: with one share fewer than the threshold the interpolated value is not
	// determined by the composite key (there are coefficient values for which it fails to verify);
	// that fewer shares cannot FORGE a signature is a cryptographic statement and outside this technique
	if t >= 2 {
		sub := subsets(len(ids), int(t)-1)[0]
		sigs := make([]bls.Sign, len(sub))
		sids := make([]bls.ID, len(sub))
		for k, idx := range sub {
			sigs[k] = partial[idx]
			sids[k] = *blsID(ids[idx])
		}
		var rec bls.Sign
		hc.Must(rec.Recover(sigs, sids))
		if !rec.VerifyByte(&composite, msg) {
			vsym.Reach("fewer-than-threshold-shares-do-not-determine-the-signature")
		}
	}
}

// GenerateAfterPartialCommit: a first attempt whose commit requests to some participants are lost, so
// that the account exists on some instances only; the sessions expire; a second attempt for the same
// name.  It may be refused, but if it is reported as successful the participants hold one consistent key.
func GenerateAfterPartialCommit() {
	vsym.ForbidCrash()
	ctx := context.Background()
	ids := idsSmall[:3]
	c := newCluster(ctx, ids, 70*time.Second)
	mask := 1 + vsym.Choose("commit-lost-to", 6) // a non-empty proper subset of the three participants
	c.loseCommit = map[uint64]bool{}
	for k, id := range ids {
		if mask&(1<<k) != 0 {
			c.loseCommit[id] = true
		}
	}
	_, _, err1 := c.nodes[ids[0]].proc.OnGenerate(ctx, hc.Creds(), walletName+"/acc", passphrase, 2, 3)
	vsym.Assert("R0-lost-commit-fails-the-generation", err1 != nil)
	c.loseCommit = nil
	vsym.AdvanceClock(int64(71 * time.Second))
	initiator := vsym.Choose("retry-initiator", 3)
	pub, parts, err := c.nodes[ids[initiator]].proc.OnGenerate(ctx, hc.Creds(), walletName+"/acc", passphrase, 2, 3)
	if err != nil {
		vsym.Reach("retry-refused")
		return
	}
	vsym.Reach("retry-succeeded")
	checkConsistent(ctx, c, ids, 2, pub, len(parts))
}

// tamperedCommitReply: the commit reply of ONE participant (every position, the initiator's own included)
// reaches the initiator with a confirmation signature that is not that participant's, or with another
// composite public key. The generation must not be reported as successful.
func tamperedCommitReply(ids []uint64, t uint32, initiator int) {
	vsym.ForbidCrash()
	ctx := context.Background()
	c := newCluster(ctx, ids, 70*time.Second)
	c.commitReplyKind = vsym.Choose("commit-reply-tamper-kind", 2)
	c.tamperCommitReply = map[uint64]bool{ids[vsym.Choose("commit-reply-tampered-from", len(ids))]: true}
	_, _, err := c.nodes[ids[initiator]].proc.OnGenerate(ctx, hc.Creds(), walletName+"/acc", passphrase, t, uint32(len(ids)))
	vsym.Out("err", err != nil)
	vsym.Assert("T0-tampered-commit-reply-fails-the-generation", err != nil)
}

func Generate2of3TamperedCommitReply()         { tamperedCommitReply(idsSmall[:3], 2, 0) }
func Generate3of4TamperedCommitReply()         { tamperedCommitReply(idsSmall[:4], 3, 2) }
func Generate2of3LargeIDsTamperedCommitReply() { tamperedCommitReply(idsLarge[:3], 2, 1) }
func Generate3of3TamperedCommitReply()         { tamperedCommitReply(idsSmall[:3], 3, 1) }

var (
	idsSmall = []uint64{1, 2, 3, 4, 5}
	idsLarge = []uint64{1 << 40, 1<<40 + 7, 3, 1<<63 + 11, 1<<64 - 2}
)

func Generate2of2()                { generate(idsSmall[:2], 2, 0) }
func Generate2of3AllCommitOrders() { generateOrd(idsSmall[:3], 2, 0, true) }
func Generate3of3AllCommitOrders() { generateOrd(idsLarge[:3], 3, 2, true) }
func Generate2of3()                { generate(idsSmall[:3], 2, 1) }
func Generate3of3()                { generate(idsSmall[:3], 3, 2) }
func Generate2of3LargeIDs()        { generate(idsLarge[:3], 2, 0) }
func Generate3of4()                { generate(idsSmall[:4], 3, 3) }
func Generate4of4LargeIDs()        { generate(idsLarge[:4], 4, 1) }
func Generate3of5()                { generate(idsSmall[:5], 3, 0) }
func Generate5of5LargeIDs()        { generate(idsLarge[:5], 5, 4) }

// GuardsOnThresholdAndParticipants: generation is refused exactly when not (n >= 1 and n/2 < t <= n).
func GuardsOnThresholdAndParticipants() {
	ctx := context.Background()
	c := newCluster(ctx, idsSmall[:2], 70*time.Second)
	t, n := vsym.Uint32("t"), vsym.Uint32("n")
	_, _, err := c.nodes[1].proc.OnGenerate(ctx, hc.Creds(), "NoSuchWallet/acc", passphrase, t, n)
	vsym.Assert("T0-some-error", err != nil)
	if err == nil {
		return
	}
	guard := err.Error() == "zero participants" || err.Error() == "signing threshold too high" || err.Error() == "signing threshold too low"
	if guard {
		vsym.Reach("refused-by-guard")
	} else {
		vsym.Reach("passed-the-guards")
	}
	permitted := vsym.And(n >= 1, t > n/2, t <= n)
	vsym.Assert("T1-refused-iff-outside-the-permitted-range", guard == !permitted)
}

// GenerateMoreParticipantsThanPeers: a client asks for more participants than the instance has
// peers (with a threshold that passes the guards): refused with an error, nothing crashes, no
// account anywhere.
func GenerateMoreParticipantsThanPeers() {
	vsym.ForbidCrash()
	ctx := context.Background()
	ids := idsSmall[:3]
	c := newCluster(ctx, ids, 70*time.Second)
	n := uint32(4 + vsym.Choose("extra", 3)) // 4, 5 or 6 participants with 3 peers
	t := n/2 + 1 + uint32(vsym.Choose("above-majority", 2))
	vsym.Assume(t <= n)
	_, _, err := c.nodes[ids[vsym.Choose("initiator", 3)]].proc.OnGenerate(ctx, hc.Creds(), walletName+"/acc", passphrase, t, n)
	vsym.Assert("P0-too-many-participants-refused", err != nil)
	for _, id := range ids {
		vsym.Assert("P1-no-account-created", c.account(ctx, id, "acc") == nil)
	}
	vsym.Reach("asked-for-too-many-participants")
}

// GenerateWithoutClientPassphrase: the client sends no passphrase (the documented default flow), the
// messages travel through the receiver handlers as on the wire (an absent bytes field is nil): every
// participant protects its share with the configured generation passphrase, so the account can be
// unlocked with it (and signs) and cannot be unlocked with the empty passphrase.
func GenerateWithoutClientPassphrase() {
	vsym.ForbidCrash()
	ctx := context.Background()
	ids := idsSmall[:3]
	c := newCluster(ctx, ids, 70*time.Second)
	c.viaHandlers = vsym.Choose("through-the-receiver-handlers", 2) == 1
	_, _, err := c.nodes[ids[vsym.Choose("initiator", 3)]].proc.OnGenerate(ctx, hc.Creds(), walletName+"/acc", nil, 2, 3)
	vsym.Assert("G0-honest-generation-succeeds", err == nil)
	if err != nil {
		return
	}
	vsym.Reach("generated-without-client-passphrase")
	for _, id := range ids {
		a := c.account(ctx, id, "acc")
		vsym.Assert(fmt.Sprintf("G2-account-exists-on-%d", id), a != nil)
		if a == nil {
			continue
		}
		l := a.(e2wtypes.AccountLocker)
		vsym.Assert(fmt.Sprintf("D2-share-not-protected-by-the-empty-passphrase-on-%d", id), l.Unlock(ctx, []byte{}) != nil && l.Unlock(ctx, nil) != nil)
		vsym.Assert(fmt.Sprintf("D1-account-opens-with-the-generation-passphrase-on-%d", id), l.Unlock(ctx, []byte("secret")) == nil)
	}
}
