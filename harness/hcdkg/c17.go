package hcdkg

import (
	"context"
	"fmt"
	pb "github.com/wealdtech/eth2-signer-api/pb/v1"
	"time"

	"github.com/attestantio/dirk/core"
	standardprocess "github.com/attestantio/dirk/services/process/standard"
	"github.com/attestantio/dirk/zzverif/vsym"
)

const (
	genTimeout = 1000 * time.Millisecond
	clockStep  = 1300 * time.Millisecond // beyond the timeout
	halfStep   = 600 * time.Millisecond  // within the timeout; two of them are beyond it
)

// reference automaton of the property's sentence, one per account name
type refGen struct {
	active      bool
	started     time.Duration // harness clock at prepare
	contributed map[uint64]bool
}

// expire drops the generations whose timeout has passed at harness time now.
func expire(ref map[string]*refGen, now time.Duration) {
	for _, r := range ref {
		if r.active && now-r.started > genTimeout {
			r.active = false
		}
	}
}

type outcome int

const (
	oOK outcome = iota
	oInProgress
	oNotInProgress
	oError
)

func classify(err error) outcome {
	switch {
	case err == nil:
		return oOK
	case err == standardprocess.ErrInProgress:
		return oInProgress
	case err == standardprocess.ErrNotInProgress:
		return oNotInProgress
	}
	if err.Error() == "not found" {
		return oNotInProgress
	}
	return oError
}

// lifecycle drives one instance (id 2 of peers {1,2,3}) with a sequence of k events over two account
// names and compares every outcome, and the existence of the accounts, with the reference automaton.
// Participants of every generation are {1,2}; peer 3 is a configured peer that is NOT a participant.
func lifecycle(k int) { lifecycleFrom(nil, k) }

// viaReceiver: the events are delivered through the real gRPC receiver handlers (as a peer's sender
// would deliver them); the handlers' errors are opaque, so outcomes are compared as accepted/refused.
var viaReceiver bool

// lifecycleFrom runs the fixed prefix of events (pairs event,name) and then k free events.
func lifecycleFrom(prefix [][2]int, k int) {
	vsym.ForbidCrash()
	ctx := context.Background()
	ids := []uint64{1, 2, 3}
	c := newCluster(ctx, ids, genTimeout)
	me := c.nodes[2]
	via := viaReceiver
	callerOf := func(from uint64) context.Context { return c.callerCtx(ctx, peerName(ids, from)) }
	okOrError := func(err error) outcome {
		if err == nil {
			return oOK
		}
		return oError
	}
	parts := []*core.Endpoint{{ID: 1, Name: "signer-test01", Port: 8881}, {ID: 2, Name: "signer-test02", Port: 8882}}
	names := []string{"accA", "accB"}
	ref := map[string]*refGen{"accA": {}, "accB": {}}
	created := map[string]bool{}
	now := time.Duration(0)
	for step := 0; step < len(prefix)+k; step++ {
		tag := fmt.Sprintf("_%d", step)
		var ev, ni int
		if step < len(prefix) {
			ev, ni = prefix[step][0], prefix[step][1]
		} else {
			ev = vsym.Choose("event"+tag, 8)
		}
		if ev == 6 || ev == 7 {
			// the clock moves on: beyond the timeout, or by a step within it
			d := clockStep
			if ev == 7 {
				d = halfStep
			}
			vsym.AdvanceClock(int64(d))
			now += d
			expire(ref, now)
			vsym.Reach("clock-advanced")
			continue
		}
		if step >= len(prefix) {
			ni = vsym.Choose("name"+tag, 2)
		}
		name := names[ni]
		expire(ref, now)
		acct := walletName + "/" + name
		r := ref[name]
		var got, want outcome
		switch ev {
		case 0: // prepare
			if via {
				_, err := me.handler.Prepare(callerOf(1), &pb.PrepareRequest{Account: acct, Passphrase: passphrase, Threshold: 2, Participants: pbEndpoints(parts)})
				got = okOrError(err)
			} else {
				got = classify(me.proc.OnPrepare(ctx, 1, acct, passphrase, 2, parts))
			}
			if r.active {
				want = oInProgress
			} else {
				want = oOK
				r.active = true
				r.started = now
				r.contributed = map[uint64]bool{2: true}
			}
		case 1: // execute
			if via {
				_, err := me.handler.Execute(callerOf(1), &pb.ExecuteRequest{Account: acct})
				got = okOrError(err)
			} else {
				got = classify(me.proc.OnExecute(ctx, 1, acct))
			}
			if r.active {
				want = oOK
			} else {
				want = oNotInProgress
			}
		case 2, 3: // a valid contribution from participant 1 / from peer 3 (not a participant)
			from := uint64(1)
			if ev == 3 {
				from = 3
			}
			share, vvec := consistentContribution(2, 2)
			if via {
				req := &pb.ContributeRequest{Account: acct, Secret: share.Serialize()}
				for k := range vvec {
					req.VerificationVector = append(req.VerificationVector, vvec[k].Serialize())
				}
				_, err := me.handler.Contribute(callerOf(from), req)
				got = okOrError(err)
			} else {
				_, _, err := me.proc.OnContribute(ctx, from, acct, share, vvec)
				got = classify(err)
			}
			if r.active {
				want = oOK
				r.contributed[from] = true
			} else {
				want = oNotInProgress
			}
		case 4: // commit
			if via {
				_, err := me.handler.Commit(callerOf(1), &pb.CommitRequest{Account: acct, ConfirmationData: []byte("confirmation data 0123456789abcdef")})
				got = okOrError(err)
			} else {
				_, _, err := me.proc.OnCommit(ctx, 1, acct, []byte("confirmation data 0123456789abcdef"))
				got = classify(err)
			}
			switch {
			case !r.active:
				want = oNotInProgress
			case created[name]:
				want = oError // the account name is taken: the wallet refuses the import
			case r.contributed[1] && r.contributed[2]:
				// every listed participant has contributed
				want = oOK
				if r.contributed[3] {
					// a stranger's contribution is on record as well: the count no longer matches
					want = oError
				}
			default:
				want = oError
			}
			if want == oOK {
				r.active = false
				created[name] = true
			}
			if got == oOK {
				vsym.Reach("commit-succeeded")
			}
		case 5: // abort
			if via {
				_, err := me.handler.Abort(callerOf(1), &pb.AbortRequest{Account: acct})
				got = okOrError(err)
			} else {
				got = classify(me.proc.OnAbort(ctx, 1, acct))
			}
			if r.active {
				want = oOK
				r.active = false
			} else {
				want = oNotInProgress
			}
		}
		vsym.Out(fmt.Sprintf("ev%d", step), fmt.Sprintf("%d:%s:%d", ev, name, got))
		if via {
			vsym.Assert(fmt.Sprintf("S1-outcome-as-the-lifecycle-prescribes[event %d]", ev), (got == oOK) == (want == oOK))
			if (got == oOK) != (want == oOK) {
				return
			}
			continue
		}
		vsym.Assert(fmt.Sprintf("S1-outcome-as-the-lifecycle-prescribes[event %d]", ev), got == want)
		if got != want {
			return
		}
	}
	for _, name := range names {
		vsym.Assert("S2-account-exists-iff-a-commit-succeeded", (c.account(ctx, 2, name) != nil) == created[name])
	}
}

func Lifecycle1() { lifecycle(1) }
func Lifecycle2() { lifecycle(2) }
func Lifecycle3() { lifecycle(3) }
func Lifecycle4() { lifecycle(4) }
func Lifecycle5() { lifecycle(5) }

// LifecycleReprepare: a generation is prepared, aborted, and prepared again within the first one's
// time window; then the clock passes the FIRST generation's deadline but not the second's.
func LifecycleReprepare() {
	lifecycleFrom([][2]int{{0, 0}, {5, 0}, {7, 0}, {0, 0}, {7, 0}}, 2)
}

// LifecycleRecommit: the same after a successful commit instead of an abort.
func LifecycleRecommit() {
	lifecycleFrom([][2]int{{0, 0}, {2, 0}, {4, 0}, {7, 0}, {0, 1}, {7, 0}}, 1)
}

// LifecycleKeptBusyProbe: prepare, half step, a fixed message for the same name, half step, then a
// free event that probes the state (a new prepare must succeed, anything else must find nothing).
func LifecycleKeptBusyProbe() {
	msg := []int{0, 1, 4, 2}[vsym.Choose("kept-busy-with", 4)]
	lifecycleFrom([][2]int{{0, 0}, {7, 0}, {msg, 0}, {7, 0}}, 1)
}

// LifecycleViaReceiver2/3: the free event sequences delivered through the receiver handlers.
func LifecycleViaReceiver2() {
	viaReceiver = true
	defer func() { viaReceiver = false }()
	lifecycle(2)
}
func LifecycleViaReceiver3() {
	viaReceiver = true
	defer func() { viaReceiver = false }()
	lifecycle(3)
}
