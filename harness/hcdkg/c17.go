package hcdkg

import (
	"context"
	"fmt"
	"time"

	"github.com/attestantio/dirk/core"
	standardprocess "github.com/attestantio/dirk/services/process/standard"
	"github.com/attestantio/dirk/zzverif/vsym"
)

const (
	genTimeout = 1000 * time.Millisecond
	clockStep  = 1300 * time.Millisecond
)

// reference automaton of the property's sentence, one per account name
type refGen struct {
	active      bool
	contributed map[uint64]bool
}

type outcome int

const (
	oOK outcome = iota
	oInProgress
	oNotInProgress
	oError
)

func classify(err error) outcome {
	switch {
	case err == nil:
		return oOK
	case err == standardprocess.ErrInProgress:
		return oInProgress
	case err == standardprocess.ErrNotInProgress:
		return oNotInProgress
	}
	if err.Error() == "not found" {
		return oNotInProgress
	}
	return oError
}

// lifecycle drives one instance (id 2 of peers {1,2,3}) with a sequence of k events over two account
// names and compares every outcome, and the existence of the accounts, with the reference automaton.
// Participants of every generation are {1,2}; peer 3 is a configured peer that is NOT a participant.
func lifecycle(k int) {
	vsym.ForbidCrash()
	ctx := context.Background()
	ids := []uint64{1, 2, 3}
	c := newCluster(ctx, ids, genTimeout)
	me := c.nodes[2]
	parts := []*core.Endpoint{{ID: 1, Name: "signer-test01", Port: 8881}, {ID: 2, Name: "signer-test02", Port: 8882}}
	names := []string{"accA", "accB"}
	ref := map[string]*refGen{"accA": {}, "accB": {}}
	created := map[string]bool{}
	for step := 0; step < k; step++ {
		tag := fmt.Sprintf("_%d", step)
		ev := vsym.Choose("event"+tag, 7)
		if ev == 6 {
			// the clock passes the generation timeout: every generation is gone
			vsym.AdvanceClock(int64(clockStep))
			for _, r := range ref {
				r.active = false
			}
			vsym.Reach("clock-advanced")
			continue
		}
		name := names[vsym.Choose("name"+tag, 2)]
		acct := walletName + "/" + name
		r := ref[name]
		var got, want outcome
		switch ev {
		case 0: // prepare
			got = classify(me.proc.OnPrepare(ctx, 1, acct, passphrase, 2, parts))
			if r.active {
				want = oInProgress
			} else {
				want = oOK
				r.active = true
				r.contributed = map[uint64]bool{2: true}
			}
		case 1: // execute
			got = classify(me.proc.OnExecute(ctx, 1, acct))
			if r.active {
				want = oOK
			} else {
				want = oNotInProgress
			}
		case 2, 3: // a valid contribution from participant 1 / from peer 3 (not a participant)
			from := uint64(1)
			if ev == 3 {
				from = 3
			}
			share, vvec := consistentContribution(2, 2)
			_, _, err := me.proc.OnContribute(ctx, from, acct, share, vvec)
			got = classify(err)
			if r.active {
				want = oOK
				r.contributed[from] = true
			} else {
				want = oNotInProgress
			}
		case 4: // commit
			_, _, err := me.proc.OnCommit(ctx, 1, acct, []byte("confirmation data 0123456789abcdef"))
			got = classify(err)
			switch {
			case !r.active:
				want = oNotInProgress
			case created[name]:
				want = oError // the account name is taken: the wallet refuses the import
			case r.contributed[1] && r.contributed[2]:
				// every listed participant has contributed
				want = oOK
				if r.contributed[3] {
					// a stranger's contribution is on record as well: the count no longer matches
					want = oError
				}
			default:
				want = oError
			}
			if want == oOK {
				r.active = false
				created[name] = true
			}
			if got == oOK {
				vsym.Reach("commit-succeeded")
			}
		case 5: // abort
			got = classify(me.proc.OnAbort(ctx, 1, acct))
			if r.active {
				want = oOK
				r.active = false
			} else {
				want = oNotInProgress
			}
		}
		vsym.Out(fmt.Sprintf("ev%d", step), fmt.Sprintf("%d:%s:%d", ev, name, got))
		vsym.Assert(fmt.Sprintf("S1-outcome-as-the-lifecycle-prescribes[event %d]", ev), got == want)
		if got != want {
			return
		}
	}
	for _, name := range names {
		vsym.Assert("S2-account-exists-iff-a-commit-succeeded", (c.account(ctx, 2, name) != nil) == created[name])
	}
}

func Lifecycle1() { lifecycle(1) }
func Lifecycle2() { lifecycle(2) }
func Lifecycle3() { lifecycle(3) }
func Lifecycle4() { lifecycle(4) }
func Lifecycle5() { lifecycle(5) }
