package hcdaemon

import (
	"net"

	"github.com/attestantio/dirk/services/checker"
	"github.com/attestantio/dirk/zzverif/vsym"
	pb "github.com/wealdtech/eth2-signer-api/pb/v1"
)

// NonPeerLeavesGenerationIntact (C16): through the assembled server (interceptor chain included), a
// caller whose certificate name is not a configured peer gets every key-generation message refused,
// and the message changes nothing: a generation that a real peer has prepared is still there.
func NonPeerLeavesGenerationIntact() {
	vsym.ForbidCrash() // a panic in an interceptor or handler kills the daemon
	perms := map[string][]*checker.Permissions{"client1": {{Path: ".*", Operations: []string{"All"}}}}
	start(perms)
	account := "DW/acc"
	parts := []*pb.Endpoint{{Id: 1, Name: "signer-test01", Port: 8881}, {Id: 2, Name: "signer-test02", Port: 8882}}
	peerCtx := callCtx(net.IPv4(10, 0, 0, 2), "signer-test02", nil)
	_, err := vsym.Invoke("/v1.DKG/Prepare", peerCtx, &pb.PrepareRequest{Account: account, Passphrase: []byte("pass"), Threshold: 2, Participants: parts})
	vsym.Assert("N0-peer-prepare-accepted", err == nil)
	if err != nil {
		return
	}
	// the non-peer: an ordinary (even fully permitted) client, an unknown name, or an empty name
	who := []string{"client1", "stranger", ""}[vsym.Choose("non-peer", 3)]
	nctx := callCtx(net.IPv4(10, 0, 0, 9), who, nil)
	var nerr error
	msg := vsym.Choose("message", 5)
	switch msg {
	case 0:
		_, nerr = vsym.Invoke("/v1.DKG/Prepare", nctx, &pb.PrepareRequest{Account: account, Passphrase: []byte("x"), Threshold: 2, Participants: parts})
	case 1:
		_, nerr = vsym.Invoke("/v1.DKG/Execute", nctx, &pb.ExecuteRequest{Account: account})
	case 2:
		_, nerr = vsym.Invoke("/v1.DKG/Commit", nctx, &pb.CommitRequest{Account: account, ConfirmationData: []byte("0123456789abcdef0123456789abcdef")})
	case 3:
		_, nerr = vsym.Invoke("/v1.DKG/Abort", nctx, &pb.AbortRequest{Account: account})
	default:
		_, nerr = vsym.Invoke("/v1.DKG/Contribute", nctx, &pb.ContributeRequest{Account: account, Secret: make([]byte, 32), VerificationVector: [][]byte{make([]byte, 48), make([]byte, 48)}})
	}
	vsym.Assert("N1-non-peer-message-refused", nerr != nil)
	vsym.Reach("non-peer-message-sent")
	// the generation is intact: a second prepare by the peer is still refused as in progress, and the
	// peer's abort finds it
	_, err2 := vsym.Invoke("/v1.DKG/Prepare", peerCtx, &pb.PrepareRequest{Account: account, Passphrase: []byte("pass"), Threshold: 2, Participants: parts})
	vsym.Assert("N2-generation-still-in-progress", err2 != nil)
	_, err3 := vsym.Invoke("/v1.DKG/Abort", peerCtx, &pb.AbortRequest{Account: account})
	vsym.Assert("N3-peer-abort-finds-the-generation", err3 == nil)
}
