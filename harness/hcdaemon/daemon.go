// Package hcdaemon: harnesses at the level of the assembled API server.  The server is built by the
// real grpcapi.New (createServer: TLS configuration, interceptor chain, registration of the five
// services) over the real signer, lister, managers, process service and static checker; requests are
// delivered with vsym.Invoke, which runs the server's real interceptor chain and then the registered
// handler, exactly as the transport does after the handshake.  The context of a request carries what
// the transport would put there: the TCP peer address, the verified client certificate, the request
// metadata (headers) the client chose.
package hcdaemon

import (
	"encoding/base64"
	"fmt"

	"context"
	"crypto/tls"
	"crypto/x509"
	"crypto/x509/pkix"
	"github.com/attestantio/dirk/services/fetcher"
	memfetcher "github.com/attestantio/dirk/services/fetcher/mem"
	"github.com/attestantio/dirk/services/sender"
	sendergrpc "github.com/attestantio/dirk/services/sender/grpc"
	"net"

	"github.com/attestantio/dirk/core"
	standardaccountmanager "github.com/attestantio/dirk/services/accountmanager/standard"
	grpcapi "github.com/attestantio/dirk/services/api/grpc"
	"github.com/attestantio/dirk/services/checker"
	staticchecker "github.com/attestantio/dirk/services/checker/static"
	standardlister "github.com/attestantio/dirk/services/lister/standard"
	staticpeers "github.com/attestantio/dirk/services/peers/static"
	standardprocess "github.com/attestantio/dirk/services/process/standard"
	standardwalletmanager "github.com/attestantio/dirk/services/walletmanager/standard"
	hc "github.com/attestantio/dirk/zzverif/hcommon"
	"github.com/attestantio/dirk/zzverif/stubs"
	"github.com/attestantio/dirk/zzverif/vsym"
	"github.com/herumi/bls-eth-go-binary/bls"
	e2types "github.com/wealdtech/go-eth2-types/v2"
	e2wtypes "github.com/wealdtech/go-eth2-wallet-types/v2"
	"google.golang.org/grpc/credentials"
	"google.golang.org/grpc/metadata"
	"google.golang.org/grpc/peer"
)

var caPEM = []byte("-----BEGIN CERTIFICATE-----\nQ0EgY2VydGlmaWNhdGUgb2YgdGhlIGNvbmZpZ3VyZWQgYXV0aG9yaXR5\n-----END CERTIFICATE-----\n")

// the server certificate file: one leaf certificate in the model's certificate encoding
var serverCertPEM = []byte("-----BEGIN CERTIFICATE-----\nTEVBRjpzaWduZXItdGVzdDAx\n-----END CERTIFICATE-----\n")

const adminIP = "10.1.2.3"

type daemon struct {
	in       *hc.Instance
	log      *stubs.Log
	proc     *standardprocess.Service
	store    *stubs.Store
	dfetcher *memfetcher.Service
}

// nopSender: the instance never initiates a generation in these harnesses.
type nopSender struct{}

func (nopSender) Prepare(ctx context.Context, peer *core.Endpoint, account string, passphrase []byte, threshold uint32, participants []*core.Endpoint) error {
	return nil
}
func (nopSender) Execute(ctx context.Context, peer *core.Endpoint, account string) error { return nil }
func (nopSender) Commit(ctx context.Context, peer *core.Endpoint, account string, confirmationData []byte) ([]byte, []byte, error) {
	return nil, nil, nil
}
func (nopSender) Abort(ctx context.Context, peer *core.Endpoint, account string) error { return nil }
func (nopSender) SendContribution(ctx context.Context, peer *core.Endpoint, account string, distributionSecret bls.SecretKey, verificationVector []bls.PublicKey) (bls.SecretKey, []bls.PublicKey, error) {
	return bls.SecretKey{}, nil, nil
}

// start assembles the API server of instance 1 of peers {1,2,3} and starts serving.
func start(perms map[string][]*checker.Permissions) *daemon { return startNode(1, perms, false) }

var peerAddresses = map[uint64]string{1: "signer-test01:8881", 2: "signer-test02:8882", 3: "signer-test03:8883"}

func leafPEM(name string) []byte {
	return []byte("-----BEGIN CERTIFICATE-----\n" + base64.StdEncoding.EncodeToString([]byte("LEAF:"+name)) + "\n-----END CERTIFICATE-----\n")
}

// startNode assembles instance id; with realSender its process service talks to its peers through the
// real gRPC sender (services/sender/grpc) over the model's loop-back transport.
func startNode(id uint64, perms map[string][]*checker.Permissions, realSender bool) *daemon {
	bg := context.Background()
	name := fmt.Sprintf("signer-test%02d", id)
	hc.Must(e2types.InitBLS())
	d := &daemon{log: &stubs.Log{}}
	ck, err := staticchecker.New(bg, staticchecker.WithPermissions(perms))
	hc.Must(err)
	d.in = hc.Start(bg, vsym.TempDir(fmt.Sprintf("N%d", id)), d.log, &hc.Deps{Checker: ck, AdminIPs: []string{adminIP}})
	stubFetcher := &stubs.Fetcher{Wallets: []*stubs.Wallet{d.in.Wallet}, L: d.log}
	unlocker := &stubs.Unlocker{L: d.log, Knows: true}
	ls, err := standardlister.New(bg, standardlister.WithChecker(ck), standardlister.WithFetcher(stubFetcher), standardlister.WithRuler(d.in.Ruler))
	hc.Must(err)
	peers, err := staticpeers.New(bg, staticpeers.WithPeers(peerAddresses))
	hc.Must(err)
	dw := stubs.NewDWallet(d.log, "DW", "distributed", byte(id))
	store := &stubs.Store{N: fmt.Sprintf("store%d", id), Ws: []*stubs.DWallet{dw}}
	d.store = store
	var snd sender.Service = nopSender{}
	if realSender {
		snd, err = sendergrpc.New(bg, sendergrpc.WithName(name), sendergrpc.WithServerCert(leafPEM(name)), sendergrpc.WithServerKey([]byte("key")), sendergrpc.WithCACert(caPEM))
		hc.Must(err)
		// generated accounts live in the distributed wallet: the fetcher must serve that store
		mf, merr := memfetcher.New(bg, memfetcher.WithStores([]e2wtypes.Store{store}), memfetcher.WithEncryptor(stubs.Encryptor{}))
		hc.Must(merr)
		d.dfetcher = mf
	}
	var pf fetcher.Service = stubFetcher
	if d.dfetcher != nil {
		pf = d.dfetcher
	}
	d.proc, err = standardprocess.New(bg,
		standardprocess.WithChecker(ck), standardprocess.WithGenerationPassphrase([]byte("secret")), standardprocess.WithID(id),
		standardprocess.WithPeers(peers), standardprocess.WithSender(snd), standardprocess.WithFetcher(pf),
		standardprocess.WithStores([]e2wtypes.Store{store}), standardprocess.WithUnlocker(unlocker), standardprocess.WithEncryptor(stubs.Encryptor{}))
	hc.Must(err)
	am, err := standardaccountmanager.New(bg, standardaccountmanager.WithChecker(ck), standardaccountmanager.WithFetcher(stubFetcher),
		standardaccountmanager.WithUnlocker(unlocker), standardaccountmanager.WithRuler(d.in.Ruler), standardaccountmanager.WithProcess(d.proc))
	hc.Must(err)
	wm, err := standardwalletmanager.New(bg, standardwalletmanager.WithChecker(ck), standardwalletmanager.WithFetcher(stubFetcher),
		standardwalletmanager.WithUnlocker(unlocker), standardwalletmanager.WithRuler(d.in.Ruler))
	hc.Must(err)
	_, err = grpcapi.New(bg,
		grpcapi.WithSigner(d.in.Signer), grpcapi.WithLister(ls), grpcapi.WithProcess(d.proc), grpcapi.WithWalletManager(wm),
		grpcapi.WithAccountManager(am), grpcapi.WithPeers(peers), grpcapi.WithName(name), grpcapi.WithID(id),
		grpcapi.WithListenAddress(fmt.Sprintf("0.0.0.0:%d", 8880+id)), grpcapi.WithServerCert(leafPEM(name)), grpcapi.WithServerKey([]byte("key")), grpcapi.WithCACert(caPEM))
	hc.Must(err)
	return d
}

// callCtx: what the transport leaves in the context of a request from a client at address ip that
// presented a verified certificate with common name cn, with the request headers md.
func callCtx(ip net.IP, cn string, md map[string]string) context.Context {
	ctx := context.Background()
	if len(md) > 0 {
		var kv []string
		for k, v := range md {
			kv = append(kv, k, v)
		}
		ctx = metadata.NewIncomingContext(ctx, metadata.Pairs(kv...))
	}
	certs := []*x509.Certificate{{Subject: pkix.Name{CommonName: cn}}}
	return peer.NewContext(ctx, &peer.Peer{Addr: &net.TCPAddr{IP: ip, Port: 40000},
		AuthInfo: credentials.TLSInfo{State: tls.ConnectionState{HandshakeComplete: true, PeerCertificates: certs, VerifiedChains: [][]*x509.Certificate{certs}}}})
}

func allowAll() map[string][]*checker.Permissions {
	return map[string][]*checker.Permissions{"client1": {{Path: ".*", Operations: []string{"All"}}}}
}
