package hcdaemon

import (
	"net"

	"github.com/attestantio/dirk/services/checker"
	"github.com/attestantio/dirk/zzverif/vsym"
	pb "github.com/wealdtech/eth2-signer-api/pb/v1"
)

// IdentityDecidesThroughTheChain (C07, C19): through the assembled server the identity used for the
// permission decision is the common name of the verified client certificate and nothing else the
// client can choose (headers): a request is served only for the configured client name.
func IdentityDecidesThroughTheChain() {
	vsym.ForbidCrash() // a panic in an interceptor or handler kills the daemon
	perms := map[string][]*checker.Permissions{"client1": {{Path: "W/a", Operations: []string{"Sign", "Access account"}}}}
	start(perms)
	cn := []string{"client1", "Client1", "client1 ", "stranger", "", "signer-test02"}[vsym.Choose("cn", 6)]
	headers := []map[string]string{nil, {"client": "client1"}, {"x-client-name": "client1"}, {":authority": "client1"}}[vsym.Choose("headers", 4)]
	acct := []string{"W/a", "W/b"}[vsym.Choose("account", 2)]
	dom := make([]byte, 32)
	dom[0] = 7
	res, err := vsym.Invoke("/v1.Signer/Sign", callCtx(net.IPv4(10, 0, 0, 9), cn, headers),
		&pb.SignRequest{Id: &pb.SignRequest_Account{Account: acct}, Data: vsym.Bytes("data", 32), Domain: dom})
	vsym.Assert("I0-request-answered", err == nil && res != nil)
	if err != nil || res == nil {
		return
	}
	r := res.(*pb.SignResponse)
	served := r.GetState() == pb.ResponseState_SUCCEEDED
	if served {
		vsym.Reach("served")
	} else {
		vsym.Reach("refused")
	}
	vsym.Assert("I1-served-iff-the-certificate-names-the-permitted-client-and-account", served == (cn == "client1" && acct == "W/a"))
	vsym.Assert("I2-signature-iff-served", (len(r.GetSignature()) != 0) == served)
}
