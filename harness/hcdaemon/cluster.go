package hcdaemon

import (
	"context"
	"encoding/binary"
	"fmt"
	"github.com/attestantio/dirk/services/checker"
	"net"

	hc "github.com/attestantio/dirk/zzverif/hcommon"
	"github.com/attestantio/dirk/zzverif/vsym"
	"github.com/herumi/bls-eth-go-binary/bls"
	pb "github.com/wealdtech/eth2-signer-api/pb/v1"
	e2wtypes "github.com/wealdtech/go-eth2-wallet-types/v2"
	"google.golang.org/grpc"
	"google.golang.org/protobuf/types/known/emptypb"
)

func blsID(id uint64) *bls.ID {
	var res bls.ID
	buf := make([]byte, 8)
	binary.LittleEndian.PutUint64(buf, id)
	hc.Must(res.SetLittleEndian(buf))
	return &res
}

func (d *daemon) account(ctx context.Context, name string) e2wtypes.Account {
	for _, w := range d.store.Ws {
		a, err := w.AccountByName(ctx, name)
		if err == nil && a != nil {
			return a
		}
	}
	return nil
}

// ClusterGenerateThroughRealSenders (C12): two fully assembled instances whose process services talk
// through the real gRPC sender (services/sender/grpc), the model's loop-back transport, the other
// instance's real interceptor chain and receiver handlers: a 2-of-2 generation requested on either
// instance succeeds and both hold shares of the returned key.
func ClusterGenerateThroughRealSenders() {
	vsym.ForbidCrash()
	ctx := context.Background()
	n1 := startNode(1, allowAll(), true)
	n2 := startNode(2, allowAll(), true)
	nodes := []*daemon{n1, n2}
	ini := vsym.Choose("initiator", 2)
	pub, parts, err := nodes[ini].proc.OnGenerate(ctx, &checker.Credentials{Client: "client1"}, "DW/acc", []byte("pass"), 2, 2)
	if err != nil {
		vsym.Out("generate-error", err.Error())
	}
	vsym.Assert("G0-honest-generation-succeeds", err == nil)
	if err != nil {
		return
	}
	vsym.Reach("generated-through-real-senders")
	vsym.Assert("G1-all-participants-listed", len(parts) == 2)
	for k, n := range nodes {
		a := n.account(ctx, "acc")
		vsym.Assert(fmt.Sprintf("G2-account-exists-on-%d", k+1), a != nil)
		if a == nil {
			continue
		}
		da, ok := a.(e2wtypes.DistributedAccount)
		vsym.Assert("G3-distributed-account", ok)
		if ok {
			vsym.Assert(fmt.Sprintf("G4-composite-key-is-the-returned-one-on-%d", k+1), vsym.BytesEq(da.CompositePublicKey().Marshal(), pub))
			vsym.Assert("G5-threshold-recorded", da.SigningThreshold() == 2)
		}
	}
}

// fakePeer: a key-generation peer under the harness's control (instance 2 of the cluster): it accepts
// every message and answers Contribute with a share and a verification vector of a chosen length.
type fakePeer struct {
	pb.UnimplementedDKGServer
	vectorLen int
	commits   int
}

func (f *fakePeer) Prepare(ctx context.Context, req *pb.PrepareRequest) (*emptypb.Empty, error) {
	return &emptypb.Empty{}, nil
}
func (f *fakePeer) Execute(ctx context.Context, req *pb.ExecuteRequest) (*emptypb.Empty, error) {
	return &emptypb.Empty{}, nil
}
func (f *fakePeer) Abort(ctx context.Context, req *pb.AbortRequest) (*emptypb.Empty, error) {
	return &emptypb.Empty{}, nil
}
func (f *fakePeer) Commit(ctx context.Context, req *pb.CommitRequest) (*pb.CommitResponse, error) {
	f.commits++
	return &pb.CommitResponse{PublicKey: make([]byte, 48), ConfirmationSignature: make([]byte, 96)}, nil
}
func (f *fakePeer) Contribute(ctx context.Context, req *pb.ContributeRequest) (*pb.ContributeResponse, error) {
	// a share for instance 1 that is consistent with a vector of f.vectorLen entries
	sks := make([]bls.SecretKey, f.vectorLen)
	res := &pb.ContributeResponse{}
	for k := range sks {
		sks[k].SetByCSPRNG()
		res.VerificationVector = append(res.VerificationVector, sks[k].GetPublicKey().Serialize())
	}
	var share bls.SecretKey
	if f.vectorLen > 0 {
		hc.Must(share.Set(sks, blsID(1)))
	} else {
		share.SetByCSPRNG()
	}
	res.Secret = share.Serialize()
	return res, nil
}

// FaultyPeerReplyVector (C13): instance 1 is fully assembled and uses the real gRPC sender; its peer
// answers the contribution exchange with a verification vector of the wrong length (0, 1 or 3 entries
// for threshold 2) and a share that matches it.  The generation ends with an error, instance 1 does
// not crash, does not send a commit and holds no account.
func FaultyPeerReplyVector() {
	vsym.ForbidCrash()
	ctx := context.Background()
	n1 := startNode(1, allowAll(), true)
	fake := &fakePeer{vectorLen: []int{0, 1, 3}[vsym.Choose("reply-vector-length", 3)]}
	srv := grpc.NewServer()
	pb.RegisterDKGServer(srv, fake)
	lis, err := net.Listen("tcp", "0.0.0.0:8882")
	hc.Must(err)
	go func() { _ = srv.Serve(lis) }()
	_, _, gerr := n1.proc.OnGenerate(ctx, &checker.Credentials{Client: "client1"}, "DW/acc", []byte("pass"), 2, 2)
	vsym.Reach("faulty-reply-delivered")
	vsym.Assert("X1-faulty-exchange-ends-with-an-error", gerr != nil)
	vsym.Assert("X2-no-account-on-1", n1.account(ctx, "acc") == nil)
	vsym.Assert("X4-no-commit-after-an-invalid-contribution", fake.commits == 0)
}
