package hcdaemon

import (
	"net"

	"github.com/attestantio/dirk/zzverif/vsym"
	pb "github.com/wealdtech/eth2-signer-api/pb/v1"
)

// VoluntaryExitSource (C05): through the assembled server, a generic signature under the
// voluntary-exit domain is released only when the TCP peer address of the connection is on the
// administrator list, whatever the request's headers claim about its origin.
func VoluntaryExitSource() {
	vsym.ForbidCrash() // a panic in an interceptor or handler kills the daemon
	d := start(allowAll())
	_ = d
	peers := []net.IP{net.IPv4(127, 0, 0, 1), net.ParseIP(adminIP), net.IPv4(192, 168, 1, 5), net.ParseIP("::1")}
	pi := vsym.Choose("peer-address", len(peers))
	headers := []map[string]string{nil, {"x-forwarded-for": adminIP}, {"x-forwarded-for": adminIP + ", 172.16.0.1"}, {"x-real-ip": adminIP},
		{"forwarded": "for=" + adminIP}, {":authority": adminIP}, {"x-forwarded-for": "127.0.0.1"}}
	hi := vsym.Choose("headers", len(headers))
	dom := vsym.Bytes("dom", 32)
	vsym.Assume(vsym.And(dom[0] == 4, dom[1] == 0, dom[2] == 0, dom[3] == 0)) // voluntary exit
	req := &pb.SignRequest{Id: &pb.SignRequest_Account{Account: "W/a"}, Data: vsym.Bytes("data", 32), Domain: dom}
	listed := pi == 1
	check := func(what string, state pb.ResponseState, sig []byte) {
		if state == pb.ResponseState_SUCCEEDED {
			vsym.Reach("exit-signed")
		} else {
			vsym.Reach("exit-refused")
		}
		vsym.Assert("E1-exit-signed-only-for-a-listed-peer-address"+what, vsym.Implies(state == pb.ResponseState_SUCCEEDED, listed))
		vsym.Assert("E2-exit-from-a-listed-address-is-signed"+what, vsym.Implies(listed, state == pb.ResponseState_SUCCEEDED))
		vsym.Assert("E3-signature-iff-succeeded"+what, (len(sig) != 0) == (state == pb.ResponseState_SUCCEEDED))
	}
	if vsym.Choose("multi", 2) == 0 {
		res, err := vsym.Invoke("/v1.Signer/Sign", callCtx(peers[pi], "client1", headers[hi]), req)
		vsym.Assert("E0-request-answered", err == nil && res != nil)
		if err != nil || res == nil {
			return
		}
		r := res.(*pb.SignResponse)
		check("", r.GetState(), r.GetSignature())
	} else {
		res, err := vsym.Invoke("/v1.Signer/Multisign", callCtx(peers[pi], "client1", headers[hi]), &pb.MultisignRequest{Requests: []*pb.SignRequest{req}})
		vsym.Assert("E0-request-answered", err == nil && res != nil)
		if err != nil || res == nil {
			return
		}
		rs := res.(*pb.MultisignResponse).GetResponses()
		vsym.Assert("E4-one-response", len(rs) == 1)
		if len(rs) == 1 {
			check("[multi]", rs[0].GetState(), rs[0].GetSignature())
		}
	}
}
