package hcdaemon

import (
	"net"

	"github.com/attestantio/dirk/services/checker"
	"github.com/attestantio/dirk/zzverif/stubs"
	"github.com/attestantio/dirk/zzverif/vsym"
	pb "github.com/wealdtech/eth2-signer-api/pb/v1"
)

// ManagersThroughTheChain (C07): lock and unlock requests for accounts and wallets through the
// assembled server: the operation is carried out only when the caller's permission covers exactly
// that operation on exactly the addressed account or wallet, and it touches nothing else.
func ManagersThroughTheChain() {
	vsym.ForbidCrash() // a panic in an interceptor or handler kills the daemon
	perms := map[string][]*checker.Permissions{"client1": {
		{Path: "W/a", Operations: []string{"Unlock account"}},
		{Path: "W/b", Operations: []string{"Lock account"}},
		{Path: "W", Operations: []string{"Lock wallet"}},
	}}
	d := start(perms)
	accts := d.in.Wallet.Accts
	a, b := accts[0].(*stubs.Account), accts[1].(*stubs.Account)
	a.Unlocked, b.Unlocked = false, true
	a.Pass, b.Pass = "pass", "pass"
	d.in.Wallet.Unlocked = true
	cctx := callCtx(net.IPv4(10, 0, 0, 9), "client1", nil)
	op := vsym.Choose("operation", 10)
	target := []string{"W/a", "W/b"}[vsym.Choose("target", 2)]
	ok := false
	switch op {
	case 0:
		res, err := vsym.Invoke("/v1.AccountManager/Unlock", cctx, &pb.UnlockAccountRequest{Account: target, Passphrase: []byte("pass")})
		ok = err == nil && res.(*pb.UnlockAccountResponse).GetState() == pb.ResponseState_SUCCEEDED
		vsym.Assert("A1-unlock-only-where-permitted", ok == (target == "W/a"))
		vsym.Assert("A2-unlock-touches-only-the-addressed-account", a.Unlocked == (target == "W/a") && b.Unlocked)
	case 1:
		res, err := vsym.Invoke("/v1.AccountManager/Lock", cctx, &pb.LockAccountRequest{Account: target})
		ok = err == nil && res.(*pb.LockAccountResponse).GetState() == pb.ResponseState_SUCCEEDED
		vsym.Assert("A3-lock-only-where-permitted", ok == (target == "W/b"))
		vsym.Assert("A4-lock-touches-only-the-addressed-account", b.Unlocked == (target != "W/b") && !a.Unlocked)
	case 2:
		res, err := vsym.Invoke("/v1.WalletManager/Lock", cctx, &pb.LockWalletRequest{Wallet: "W"})
		ok = err == nil && res.(*pb.LockWalletResponse).GetState() == pb.ResponseState_SUCCEEDED
		vsym.Assert("A5-wallet-lock-permitted", ok && !d.in.Wallet.Unlocked)
	case 3:
		res, err := vsym.Invoke("/v1.WalletManager/Unlock", cctx, &pb.UnlockWalletRequest{Wallet: "W", Passphrase: []byte("pass")})
		ok = err == nil && res.(*pb.UnlockWalletResponse).GetState() == pb.ResponseState_SUCCEEDED
		vsym.Assert("A6-wallet-unlock-not-permitted", !ok)
	case 4:
		// the account path form must not reach the wallet operation
		res, err := vsym.Invoke("/v1.WalletManager/Lock", cctx, &pb.LockWalletRequest{Wallet: "W/b"})
		ok = err == nil && res.(*pb.LockWalletResponse).GetState() == pb.ResponseState_SUCCEEDED
		vsym.Assert("A7-wallet-operation-decided-on-the-wallet-it-resolves-to", !ok || !d.in.Wallet.Unlocked)
	case 6:
		// a wallet that does not exist, an empty wallet name
		name := []string{"Nope", ""}[vsym.Choose("unknown-wallet", 2)]
		res, err := vsym.Invoke("/v1.WalletManager/Lock", cctx, &pb.LockWalletRequest{Wallet: name})
		ok = err == nil && res.(*pb.LockWalletResponse).GetState() == pb.ResponseState_SUCCEEDED
		vsym.Assert("A9-unknown-wallet-refused", !ok && d.in.Wallet.Unlocked)
	case 7:
		name := []string{"Nope", ""}[vsym.Choose("unknown-wallet", 2)]
		res, err := vsym.Invoke("/v1.WalletManager/Unlock", cctx, &pb.UnlockWalletRequest{Wallet: name, Passphrase: []byte("pass")})
		ok = err == nil && res.(*pb.UnlockWalletResponse).GetState() == pb.ResponseState_SUCCEEDED
		vsym.Assert("A9-unknown-wallet-refused", !ok)
	case 8:
		// an account that does not exist (known wallet, unknown wallet, malformed path)
		name := []string{"W/nope", "Nope/x", "W", ""}[vsym.Choose("unknown-account", 4)]
		res, err := vsym.Invoke("/v1.AccountManager/Lock", cctx, &pb.LockAccountRequest{Account: name})
		ok = err == nil && res.(*pb.LockAccountResponse).GetState() == pb.ResponseState_SUCCEEDED
		vsym.Assert("A10-unknown-account-refused", !ok && b.Unlocked)
	case 9:
		name := []string{"W/nope", "Nope/x", "W", ""}[vsym.Choose("unknown-account", 4)]
		res, err := vsym.Invoke("/v1.AccountManager/Unlock", cctx, &pb.UnlockAccountRequest{Account: name, Passphrase: []byte("pass")})
		ok = err == nil && res.(*pb.UnlockAccountResponse).GetState() == pb.ResponseState_SUCCEEDED
		vsym.Assert("A10-unknown-account-refused", !ok && !a.Unlocked)
	default:
		res, err := vsym.Invoke("/v1.AccountManager/Unlock", callCtx(net.IPv4(10, 0, 0, 9), "stranger", nil), &pb.UnlockAccountRequest{Account: "W/a", Passphrase: []byte("pass")})
		ok = err == nil && res.(*pb.UnlockAccountResponse).GetState() == pb.ResponseState_SUCCEEDED
		vsym.Assert("A8-other-client-refused", !ok && !a.Unlocked)
	}
	if ok {
		vsym.Reach("manager-operation-carried-out")
	} else {
		vsym.Reach("manager-operation-refused")
	}
}
