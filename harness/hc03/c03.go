// Package hc03: harnesses for C03 (slashing protection survives a crash at any instant).
// What is decided is dirk's side of the bargain relative to the storage contract:
// whenever the account's Sign has been invoked for a duty, the approval of that duty is
// already in the committed store, so a restart refuses every conflicting duty.
package hc03

import (
	"context"
	"fmt"

	"github.com/attestantio/dirk/core"
	"github.com/attestantio/dirk/rules"
	standardrules "github.com/attestantio/dirk/rules/standard"
	hc "github.com/attestantio/dirk/zzverif/hcommon"
	"github.com/attestantio/dirk/zzverif/stubs"
	"github.com/attestantio/dirk/zzverif/vsym"
)

const max63 = uint64(1) << 63

func attDomain() []byte { d := make([]byte, 32); d[0] = 1; return d }

func att(s, t uint64) *rules.SignBeaconAttestationData {
	return &rules.SignBeaconAttestationData{Domain: attDomain(), Slot: 3, CommitteeIndex: 1, BeaconBlockRoot: hc.Root,
		Source: &rules.Checkpoint{Epoch: s, Root: hc.Root}, Target: &rules.Checkpoint{Epoch: t, Root: hc.Root}}
}

func conflict(s1, t1, s2, t2 uint64) bool {
	return vsym.Or(t1 == t2, vsym.And(s1 < s2, t2 < t1), vsym.And(s2 < s1, t1 < t2))
}

func signedKey(log *stubs.Log, key [48]byte) bool {
	for _, sc := range log.Signs {
		if sc.Key == key {
			return true
		}
	}
	return false
}

// restart brings up a new process on the same directory after the old one ended (cleanly or not).
func restart(ctx context.Context, old *hc.Instance, dir string, log *stubs.Log, crashed bool) *hc.Instance {
	if !crashed || !vsym.Symbolic() {
		// natively the dead process's store handle must be released before the directory can be reopened
		_ = old.Rules.Close(ctx)
	}
	return hc.Start(ctx, dir, log, nil)
}

// crashAttest: request r1 (single, or entry 0 of a batch of n) with a crash point at every storage
// operation boundary and at signing time; restart; an arbitrary request r2 for the same key.
func crashAttest(n int, crashes int) {
	ctx := context.Background()
	dir := vsym.TempDir("A")
	log := &stubs.Log{}
	in := hc.Start(ctx, dir, log, nil)
	vsym.SetGOMAXPROCS(1)
	// both sequential policies: a goroutine started by the code under test runs at once, or only later
	vsym.DeferGoroutines(vsym.Choose("defer-goroutines", 2) == 1)
	s1, t1 := vsym.Uint64("s1"), vsym.Uint64("t1")
	vsym.Assume(vsym.And(s1 < t1, t1 < max63))
	var res1 core.Result
	var sig1 []byte
	vsym.SetCrashes(crashes)
	crashed := vsym.UntilCrash(func() {
		if n == 1 {
			res1, sig1 = in.Signer.SignBeaconAttestation(ctx, hc.Creds(), "W/a", nil, att(s1, t1))
			return
		}
		names := []string{"W/a", "W/b", "W/c"}[:n]
		data := []*rules.SignBeaconAttestationData{att(s1, t1), att(7, 9), att(11, 12)}[:n]
		rs, sigs := in.Signer.SignBeaconAttestations(ctx, hc.Creds(), names, make([][]byte, n), data)
		if len(rs) > 0 && len(sigs) > 0 {
			res1, sig1 = rs[0], sigs[0]
		}
	})
	vsym.SetCrashes(0)
	if crashed {
		vsym.Reach("process-died")
	} else {
		vsym.Reach("request-completed")
		vsym.Assert("K0-completed-request-succeeded", vsym.And(res1 == core.ResultSucceeded, sig1 != nil))
	}
	signed := signedKey(log, hc.KeyA)
	if signed && crashed {
		vsym.Reach("died-with-a-signature-in-hand")
	}
	in2 := restart(ctx, in, dir, log, crashed)
	// the continuation of the history: any request for the same key
	s2, t2 := vsym.Uint64("s2"), vsym.Uint64("t2")
	res2 := in2.Rules.OnSignBeaconAttestation(ctx, &rules.ReqMetadata{Account: "a", PubKey: hc.KeyA[:], Client: "c"}, att(s2, t2))
	vsym.Out("res2", int(res2))
	if res2 == rules.APPROVED {
		vsym.Reach("continuation-approved")
	}
	vsym.Assert("K1-conflict-with-a-produced-signature-refused-after-restart",
		vsym.Implies(vsym.And(signed, res2 == rules.APPROVED), vsym.Not(conflict(s1, t1, s2, t2))))
	if n > 1 && signedKey(log, hc.KeyB) {
		// the neighbour's duty (7,9) is protected too
		res3 := in2.Rules.OnSignBeaconAttestation(ctx, &rules.ReqMetadata{Account: "b", PubKey: hc.KeyB[:], Client: "c"}, att(vsym.Uint64("s3"), 9))
		vsym.Assert("K2-neighbour-duty-protected-after-restart", res3 != rules.APPROVED)
	}
}

func CrashAttestSingle() { crashAttest(1, 1) }
func CrashAttestBatch2() { crashAttest(2, 1) }
func CrashAttestBatch3() { crashAttest(3, 1) }

// CrashAttestTwice: two crashes in a row (the second during the retry of the same duty).
func CrashAttestTwice() {
	ctx := context.Background()
	dir := vsym.TempDir("A")
	log := &stubs.Log{}
	in := hc.Start(ctx, dir, log, nil)
	vsym.SetGOMAXPROCS(1)
	s1, t1 := vsym.Uint64("s1"), vsym.Uint64("t1")
	vsym.Assume(vsym.And(s1 < t1, t1 < max63))
	signedAny := false
	for round := 0; round < 2; round++ {
		vsym.SetCrashes(1)
		crashed := vsym.UntilCrash(func() {
			in.Signer.SignBeaconAttestation(ctx, hc.Creds(), "W/a", nil, att(s1, t1))
		})
		vsym.SetCrashes(0)
		if signedKey(log, hc.KeyA) {
			signedAny = true
		}
		in = restart(ctx, in, dir, log, crashed)
	}
	vsym.Reach("two-rounds")
	s2, t2 := vsym.Uint64("s2"), vsym.Uint64("t2")
	res2 := in.Rules.OnSignBeaconAttestation(ctx, &rules.ReqMetadata{Account: "a", PubKey: hc.KeyA[:], Client: "c"}, att(s2, t2))
	vsym.Assert("K1-conflict-with-a-produced-signature-refused-after-restart",
		vsym.Implies(vsym.And(signedAny, res2 == rules.APPROVED), vsym.Not(conflict(s1, t1, s2, t2))))
}

// CrashPropose: the same for proposals.
func CrashPropose() {
	ctx := context.Background()
	dir := vsym.TempDir("A")
	log := &stubs.Log{}
	in := hc.Start(ctx, dir, log, nil)
	vsym.DeferGoroutines(vsym.Choose("defer-goroutines", 2) == 1)
	slot1 := vsym.Uint64("slot1")
	vsym.Assume(slot1 < max63)
	prop := func(slot uint64, body byte) *rules.SignBeaconProposalData {
		return &rules.SignBeaconProposalData{Domain: make([]byte, 32), Slot: slot, ProposerIndex: 2, ParentRoot: hc.Root, StateRoot: hc.Root, BodyRoot: hc.MkRoot(body)}
	}
	vsym.SetCrashes(1)
	crashed := vsym.UntilCrash(func() {
		in.Signer.SignBeaconProposal(ctx, hc.Creds(), "W/a", nil, prop(slot1, 1))
	})
	vsym.SetCrashes(0)
	if crashed {
		vsym.Reach("process-died")
	}
	signed := signedKey(log, hc.KeyA)
	in2 := restart(ctx, in, dir, log, crashed)
	slot2 := vsym.Uint64("slot2")
	res2 := in2.Rules.OnSignBeaconProposal(ctx, &rules.ReqMetadata{Account: "a", PubKey: hc.KeyA[:], Client: "c"}, prop(slot2, 2))
	vsym.Out("res2", int(res2))
	vsym.Assert("K3-proposal-at-or-below-a-produced-one-refused-after-restart",
		vsym.Implies(vsym.And(signed, res2 == rules.APPROVED), slot2 > slot1))
}

// StoreKeepsContract: a store write that reports success has committed exactly what was given
// (every storage fault is possible; a swallowed flush or commit error would show here).
func StoreKeepsContract() {
	ctx := context.Background()
	dir := vsym.TempDir("A")
	svc := hc.NewRules(ctx, dir)
	vsym.DeferGoroutines(vsym.Choose("defer-goroutines", 2) == 1)
	S, T := vsym.Int64("S"), vsym.Int64("T")
	vsym.Assume(S != -1)
	vsym.SetFaults(2)
	err := svc.ImportSlashingProtection(ctx, map[[48]byte]*rules.SlashingProtection{
		hc.KeyA: {PubKey: hc.KeyA[:], HighestProposedSlot: -1, HighestAttestedSourceEpoch: S, HighestAttestedTargetEpoch: T}})
	vsym.SetFaults(0)
	if err != nil {
		vsym.Reach("write-failed")
		return
	}
	vsym.Reach("write-reported-success")
	S2, T2, _ := hc.Exported(hc.ReopenAndExport(ctx, svc, dir), hc.KeyA)
	vsym.Assert("W1-successful-write-is-committed", vsym.And(S2 == S, T2 == T))
}

// BatchStoreKeepsContract: the same for the batch path: an APPROVED batch entry is in the committed store.
func BatchStoreKeepsContract() {
	ctx := context.Background()
	dir := vsym.TempDir("A")
	svc := hc.NewRules(ctx, dir)
	mds := []*rules.ReqMetadata{{Account: "a", PubKey: hc.KeyA[:], Client: "c"}, {Account: "b", PubKey: hc.KeyB[:], Client: "c"}}
	vsym.SetFaults(2)
	res := svc.OnSignBeaconAttestations(ctx, mds, []*rules.SignBeaconAttestationData{att(5, 6), att(7, 9)})
	vsym.SetFaults(0)
	ex := hc.ReopenAndExport(ctx, svc, dir)
	for k, key := range [][48]byte{hc.KeyA, hc.KeyB} {
		if k < len(res) && res[k] == rules.APPROVED {
			vsym.Reach("batch-entry-approved")
			S2, T2, _ := hc.Exported(ex, key)
			want := [][2]int64{{5, 6}, {7, 9}}[k]
			vsym.Assert(fmt.Sprintf("W2-approved-batch-entry-is-committed[%d]", k), vsym.And(S2 == want[0], T2 == want[1]))
		} else {
			vsym.Reach("batch-entry-not-approved")
		}
	}
}

// StoreOpensWithSyncWrites: every way the store is opened asks badger for synchronous writes.
func StoreOpensWithSyncWrites() {
	ctx := context.Background()
	vsym.SetFaults(2) // includes: the first Open fails and the fallback Open is used
	svc, err := standardrules.New(ctx, standardrules.WithStoragePath(vsym.TempDir("A")))
	vsym.SetFaults(0)
	if err != nil {
		vsym.Reach("open-failed")
		return
	}
	vsym.Reach("opened")
	_ = svc
	vsym.Assert("O1-sync-writes-on-every-open", vsym.ModelAllOpensSynced())
	vsym.Assert("O2-directory-lock-guard-kept-on-every-open", vsym.ModelOpensKeepLockGuard())
}

// SecondInstanceRefused: the records of a key have one reader and writer.  While one instance has the
// store open, a second instance on the same directory (an overlapping restart, a unit started twice,
// the import command run against a live daemon) does not come up; it does once the first has closed.
func SecondInstanceRefused() {
	ctx := context.Background()
	dir := vsym.TempDir("A")
	first, err := standardrules.New(ctx, standardrules.WithStoragePath(dir))
	hc.Must(err)
	vsym.SetFaults(1) // e.g. the first attempt to open fails and the fallback path is taken
	second, err2 := standardrules.New(ctx, standardrules.WithStoragePath(dir))
	vsym.SetFaults(0)
	vsym.Assert("O3-no-second-instance-on-an-open-store", err2 != nil || second == nil)
	vsym.Assert("O2-directory-lock-guard-kept-on-every-open", vsym.ModelOpensKeepLockGuard())
	hc.Must(first.Close(ctx))
	third, err3 := standardrules.New(ctx, standardrules.WithStoragePath(dir))
	vsym.Assert("O4-restart-after-close-comes-up", err3 == nil && third != nil)
	vsym.Reach("second-instance-probed")
}
