// Package hc02: harnesses for C02 (strictly increasing proposal slots).
package hc02

import (
	"context"
	"fmt"

	"github.com/attestantio/dirk/core"
	"github.com/attestantio/dirk/rules"
	standardrules "github.com/attestantio/dirk/rules/standard"
	"github.com/attestantio/dirk/services/ruler"
	hc "github.com/attestantio/dirk/zzverif/hcommon"
	"github.com/attestantio/dirk/zzverif/stubs"
	"github.com/attestantio/dirk/zzverif/vsym"
)

// preSlot creates an arbitrary proposal record for key through the exported import.
func preSlot(ctx context.Context, svc *standardrules.Service, key [48]byte, tag string) int64 {
	if vsym.Choose("pre"+tag, 2) == 0 {
		return -1
	}
	P := vsym.Int64("P" + tag)
	vsym.Assume(P != -1)
	hc.Must(svc.ImportSlashingProtection(ctx, map[[48]byte]*rules.SlashingProtection{
		key: {PubKey: key[:], HighestProposedSlot: P, HighestAttestedSourceEpoch: -1, HighestAttestedTargetEpoch: -1},
	}))
	return P
}

func propData(tag string, slot uint64) *rules.SignBeaconProposalData {
	return &rules.SignBeaconProposalData{Domain: vsym.Bytes("dom"+tag, 32), Slot: slot, ProposerIndex: vsym.Uint64("pidx" + tag),
		ParentRoot: hc.Root, StateRoot: hc.Root, BodyRoot: hc.Root}
}

type pentry struct {
	key   [48]byte
	P     int64
	hist  bool
	slotH uint64
	slot  uint64
	req   *rules.SignBeaconProposalData
}

func mkPEntry(ctx context.Context, svc *standardrules.Service, k int) *pentry {
	tag := fmt.Sprintf("%d", k)
	e := &pentry{key: hc.Keys[k]}
	e.P = preSlot(ctx, svc, e.key, tag)
	e.hist = vsym.Bool("hist" + tag)
	e.slotH = vsym.Uint64("slotH" + tag)
	// invariant: the record dominates every earlier signed proposal
	vsym.Assume(vsym.Implies(e.hist, vsym.And(e.P >= 0, e.slotH <= uint64(e.P))))
	e.slot = vsym.Uint64("slot" + tag)
	e.req = propData(tag, e.slot)
	vsym.FindingClass("F1-slot-ge-2^63", e.slot >= 1<<63)
	return e
}

func checkPEntry(tag string, e *pentry, approved bool, P2 int64) {
	if approved {
		vsym.Assert("P1-slot-strictly-above-history"+tag, vsym.Implies(e.hist, e.slot > e.slotH))
		vsym.Assert("P5-proposer-domain-only"+tag, vsym.And(e.req.Domain[0] == 0, e.req.Domain[1] == 0, e.req.Domain[2] == 0, e.req.Domain[3] == 0))
	}
	inH := vsym.Or(e.hist, approved)
	vsym.Assert("P2-invariant-preserved"+tag, vsym.Implies(inH, vsym.And(P2 >= 0,
		vsym.Implies(e.hist, e.slotH <= uint64(P2)),
		vsym.Implies(approved, e.slot <= uint64(P2)))))
	if !approved {
		vsym.Assert("P6-refusal-leaves-record"+tag, P2 == e.P)
	}
}

// L1: one inductive step of the proposal rule at the rules service.
func L1Proposal() {
	ctx := context.Background()
	dir := vsym.TempDir("A")
	svc := hc.NewRules(ctx, dir)
	e := mkPEntry(ctx, svc, 0)
	res := svc.OnSignBeaconProposal(ctx, &rules.ReqMetadata{Account: "W/a", PubKey: e.key[:], Client: "c"}, e.req)
	vsym.Out("res", int(res))
	if res == rules.APPROVED {
		vsym.Reach("approved")
	} else {
		vsym.Reach("refused")
	}
	_, _, P2 := hc.Exported(hc.ReopenAndExport(ctx, svc, dir), e.key)
	vsym.Out("P2", P2)
	checkPEntry("", e, res == rules.APPROVED, P2)
}

// L2: the same through the real runner; n entries (distinct keys, or a key twice).
func l2(pat []int) {
	ctx := context.Background()
	dir := vsym.TempDir("A")
	svc := hc.NewRules(ctx, dir)
	rl := hc.NewRuler(ctx, svc)
	byKey := map[int]*pentry{}
	var es []*pentry
	dup := false
	for k, p := range pat {
		if first, ok := byKey[p]; ok {
			dup = true
			e := *first
			tag := fmt.Sprintf("r%d", k)
			e.slot = vsym.Uint64("slot" + tag)
			e.req = propData(tag, e.slot)
			es = append(es, &e)
			continue
		}
		e := mkPEntry(ctx, svc, p)
		byKey[p] = e
		es = append(es, e)
	}
	var data []*ruler.RulesData
	for k, e := range es {
		data = append(data, &ruler.RulesData{WalletName: "W", AccountName: fmt.Sprintf("a%d", k), PubKey: e.key[:], Data: e.req})
	}
	res := rl.RunRules(ctx, hc.Creds(), ruler.ActionSignBeaconProposal, data)
	vsym.Assert("B0-one-verdict-per-entry", len(res) == len(pat))
	if len(res) != len(pat) {
		return
	}
	for k := range res {
		vsym.Out(fmt.Sprintf("res%d", k), int(res[k]))
	}
	ex := hc.ReopenAndExport(ctx, svc, dir)
	if dup {
		vsym.Reach("duplicate-key")
		for k := range res {
			vsym.Assert(fmt.Sprintf("D1-duplicate-key-never-approved[%d]", k), res[k] != rules.APPROVED)
		}
		for _, e := range byKey {
			_, _, P2 := hc.Exported(ex, e.key)
			vsym.Assert("D2-duplicate-key-leaves-records", P2 == e.P)
		}
		return
	}
	for k, e := range es {
		if res[k] == rules.APPROVED {
			vsym.Reach("runner-approved")
		}
		vsym.Assert(fmt.Sprintf("R1-verdict-definite[%d]", k), res[k] != rules.UNKNOWN)
		_, _, P2 := hc.Exported(ex, e.key)
		checkPEntry(fmt.Sprintf("[%d]", k), e, res[k] == rules.APPROVED, P2)
	}
}

func L2Single()  { l2([]int{0}) }
func L2Pair()    { l2([]int{0, 1}) }
func L2PairDup() { l2([]int{0, 0}) }

// L3: k proposal requests for W/a through the real signer; released slots strictly increase.
func l3(k int) {
	ctx := context.Background()
	dir := vsym.TempDir("A")
	log := &stubs.Log{}
	in := hc.Start(ctx, dir, log, nil)
	P := preSlot(ctx, in.Rules, hc.KeyA, "")
	hist := vsym.Bool("hist")
	slotH := vsym.Uint64("slotH")
	vsym.Assume(vsym.Implies(hist, vsym.And(P >= 0, slotH <= uint64(P))))
	var rel []uint64
	for step := 0; step < k; step++ {
		tag := fmt.Sprintf("_%d", step)
		if step > 0 && vsym.Choose("restart"+tag, 2) == 1 {
			hc.Must(in.Rules.Close(ctx))
			in = hc.Start(ctx, dir, log, nil)
		}
		slot := vsym.Uint64("slot" + tag)
		vsym.FindingClass("F1-slot-ge-2^63", slot >= 1<<63)
		name, pk := "W/a", []byte(nil)
		switch vsym.Choose("bykey"+tag, 3) {
		case 1:
			name, pk = "", hc.KeyA[:]
		case 2: // a longer byte string that still resolves to the account (only the first 48 bytes are looked at)
			name, pk = "", append(append([]byte(nil), hc.KeyA[:]...), 0x00)
		}
		res, sig := in.Signer.SignBeaconProposal(ctx, hc.Creds(), name, pk, propData(tag, slot))
		vsym.Out("res"+tag, int(res))
		vsym.Assert("S1-signature-iff-succeeded", (sig != nil) == (res == core.ResultSucceeded))
		if res == core.ResultSucceeded {
			vsym.Reach("released")
			rel = append(rel, slot)
		}
	}
	for i := range rel {
		vsym.Assert("L3-released-above-history", vsym.Implies(hist, rel[i] > slotH))
		for j := i + 1; j < len(rel); j++ {
			vsym.Reach("two-released")
			vsym.Assert("L3-released-slots-strictly-increase", rel[i] < rel[j])
		}
	}
	vsym.Assert("L3-every-signing-was-released", len(log.Signs) == len(rel))
}

func L3Two()   { l3(2) }
func L3Three() { l3(3) }
