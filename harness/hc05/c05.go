// Package hc05: harnesses for C05 (slashable message types only via the protected endpoints).
package hc05

import (
	"context"
	"fmt"

	"github.com/attestantio/dirk/core"
	"github.com/attestantio/dirk/rules"
	"github.com/attestantio/dirk/services/checker"
	hc "github.com/attestantio/dirk/zzverif/hcommon"
	"github.com/attestantio/dirk/zzverif/stubs"
	"github.com/attestantio/dirk/zzverif/vsym"
)

const listedIP = "10.0.0.1"
const listedIP6 = "2001:db8::1"

// administrator lists: none, one IPv4 address, several, and a list with an IPv6 address
var adminLists = [][]string{nil, {listedIP}, {"192.168.0.9", listedIP, "172.16.0.3"}, {listedIP6, listedIP}}

func adminList(k int) []string { return adminLists[k] }

// source addresses: absent, the listed ones, and neighbours of the listed ones (same /24, same /64,
// same /32) that are not on any list
var sourceIPs = []string{"", listedIP, "10.0.0.2", listedIP6, "2001:db8::2", "2001:db8:ffff::1"}

func sourceIP(k int) string { return sourceIPs[k] }

// ipIsListed: the source address is literally one of the configured administrator addresses.
func ipIsListed(al, ip int) bool {
	for _, a := range adminLists[al] {
		if sourceIPs[ip] != "" && a == sourceIPs[ip] {
			return true
		}
	}
	return false
}

func prefixIs(d []byte, a, b, c, e byte) bool {
	return vsym.And(d[0] == a, d[1] == b, d[2] == c, d[3] == e)
}

// allowed is the property's predicate for a generic signature under domain d.
func allowed(d []byte, ipListed bool) bool {
	return vsym.And(
		vsym.Not(prefixIs(d, 1, 0, 0, 0)),               // beacon attester
		vsym.Not(prefixIs(d, 0, 0, 0, 0)),               // beacon proposer
		vsym.Implies(prefixIs(d, 4, 0, 0, 0), ipListed), // voluntary exit
	)
}

var domLens = []int{4, 32, 33}

// RulesOnSign: the generic-sign rule for every domain, source address and administrator list.
func RulesOnSign() {
	ctx := context.Background()
	al := vsym.Choose("adminlist", len(adminLists))
	ip := vsym.Choose("ip", len(sourceIPs))
	svc := hc.NewRules(ctx, vsym.TempDir("A"), adminList(al)...)
	dom := vsym.Bytes("dom", domLens[vsym.Choose("domlen", len(domLens))])
	res := svc.OnSign(ctx, &rules.ReqMetadata{Account: "W/a", PubKey: hc.KeyA[:], Client: "c", IP: sourceIP(ip)},
		&rules.SignData{Domain: dom, Data: hc.Root})
	vsym.Out("res", int(res))
	ipListed := ipIsListed(al, ip)
	if res == rules.APPROVED {
		vsym.Reach("approved")
		vsym.Assert("G1-approved-only-if-allowed", allowed(dom, ipListed))
		if ipListed {
			vsym.Reach("approved-with-listed-ip")
		}
	}
	// no over-refusal: what the property allows is approved (keeps the check from passing vacuously on a deny-all rule)
	vsym.Assert("G2-allowed-is-approved", vsym.Implies(allowed(dom, ipListed), res == rules.APPROVED))
}

// signerGeneric drives SignGeneric / Multisign through the real signer, runner and rules.
func signerGeneric(n int, multi bool) {
	ctx := context.Background()
	log := &stubs.Log{}
	al := vsym.Choose("adminlist", len(adminLists))
	ip := vsym.Choose("ip", len(sourceIPs))
	in := hc.Start(ctx, vsym.TempDir("A"), log, &hc.Deps{AdminIPs: adminList(al)})
	creds := &checker.Credentials{Client: "c", RequestID: "r", IP: sourceIP(ip)}
	ipListed := ipIsListed(al, ip)
	var doms [][]byte
	var data []*rules.SignData
	names := []string{"W/a", "W/b", "W/c"}[:n]
	for k := 0; k < n; k++ {
		d := vsym.Bytes(fmt.Sprintf("dom%d", k), 32)
		doms = append(doms, d)
		data = append(data, &rules.SignData{Domain: d, Data: vsym.Bytes(fmt.Sprintf("data%d", k), 32)})
	}
	var results []core.Result
	var sigs [][]byte
	if multi {
		results, sigs = in.Signer.Multisign(ctx, creds, names, make([][]byte, n), data)
	} else {
		r, s := in.Signer.SignGeneric(ctx, creds, names[0], nil, data[0])
		results, sigs = []core.Result{r}, [][]byte{s}
	}
	released := 0
	for k := range results {
		vsym.Out(fmt.Sprintf("res%d", k), int(results[k]))
		var sig []byte
		if k < len(sigs) {
			sig = sigs[k]
		}
		vsym.Assert("G3-signature-iff-succeeded", (sig != nil) == (results[k] == core.ResultSucceeded))
		if results[k] == core.ResultSucceeded {
			released++
			vsym.Reach("generic-released")
			vsym.Assert("G1-released-only-if-allowed", allowed(doms[k], ipListed))
		}
	}
	vsym.Assert("G4-no-signing-beyond-released", len(log.Signs) == released)
	if len(results) == n {
		for k := range results {
			vsym.Assert("G2-allowed-is-released", vsym.Implies(allowed(doms[k], ipListed), results[k] == core.ResultSucceeded))
		}
	}
}

func SignerGeneric() { signerGeneric(1, false) }
func SignerMulti1()  { signerGeneric(1, true) }
func SignerMulti2()  { signerGeneric(2, true) }
func SignerMulti3()  { signerGeneric(3, true) }

// SignerProtectedEndpointsForeignDomain: the attestation and proposal endpoints
// refuse every domain that is not theirs, sign nothing and record nothing.
func SignerProtectedEndpointsForeignDomain() {
	ctx := context.Background()
	log := &stubs.Log{}
	dir := vsym.TempDir("A")
	in := hc.Start(ctx, dir, log, nil)
	dom := vsym.Bytes("dom", 32)
	switch vsym.Choose("endpoint", 3) {
	case 0:
		vsym.Assume(vsym.Not(prefixIs(dom, 1, 0, 0, 0)))
		res, sig := in.Signer.SignBeaconAttestation(ctx, hc.Creds(), "W/a", nil, &rules.SignBeaconAttestationData{Domain: dom,
			BeaconBlockRoot: hc.Root, Source: &rules.Checkpoint{Epoch: 1, Root: hc.Root}, Target: &rules.Checkpoint{Epoch: 2, Root: hc.Root}})
		vsym.Reach("attest-foreign")
		vsym.Assert("E1-foreign-domain-refused", vsym.And(res == core.ResultDenied, sig == nil))
	case 1:
		vsym.Assume(vsym.Not(prefixIs(dom, 1, 0, 0, 0)))
		good := make([]byte, 32)
		good[0] = 1
		res, sigs := in.Signer.SignBeaconAttestations(ctx, hc.Creds(), []string{"W/a", "W/b"}, [][]byte{nil, nil}, []*rules.SignBeaconAttestationData{
			{Domain: dom, BeaconBlockRoot: hc.Root, Source: &rules.Checkpoint{Epoch: 1, Root: hc.Root}, Target: &rules.Checkpoint{Epoch: 2, Root: hc.Root}},
			{Domain: good, BeaconBlockRoot: hc.Root, Source: &rules.Checkpoint{Epoch: 1, Root: hc.Root}, Target: &rules.Checkpoint{Epoch: 2, Root: hc.Root}}})
		vsym.Reach("attest-batch-foreign")
		vsym.Assert("E1-foreign-domain-refused", vsym.And(len(res) == 2, res[0] == core.ResultDenied, len(sigs) == 2, sigs[0] == nil))
		// the well-formed neighbour is unaffected
		vsym.Assert("E3-neighbour-signed", vsym.And(res[1] == core.ResultSucceeded, sigs[1] != nil))
		ex := hc.ReopenAndExport(ctx, in.Rules, dir)
		S, T, P := hc.Exported(ex, hc.KeyA)
		vsym.Assert("E2-refusal-records-nothing", vsym.And(S == -1, T == -1, P == -1))
		return
	default:
		vsym.Assume(vsym.Not(prefixIs(dom, 0, 0, 0, 0)))
		res, sig := in.Signer.SignBeaconProposal(ctx, hc.Creds(), "W/a", nil, &rules.SignBeaconProposalData{Domain: dom, Slot: 5,
			ParentRoot: hc.Root, StateRoot: hc.Root, BodyRoot: hc.Root})
		vsym.Reach("propose-foreign")
		vsym.Assert("E1-foreign-domain-refused", vsym.And(res == core.ResultDenied, sig == nil))
	}
	vsym.Assert("E4-nothing-signed", len(log.Signs) == 0)
	ex := hc.ReopenAndExport(ctx, in.Rules, dir)
	S, T, P := hc.Exported(ex, hc.KeyA)
	vsym.Assert("E2-refusal-records-nothing", vsym.And(S == -1, T == -1, P == -1))
}
