// Package fbadger: a thin wrapper with the subset of the badger v2 API that
// dirk's rules store uses, delegating to the real badger but consulting
// vsym.Fault at the same sites, in the same order, as the executor's badger
// model.  It exists only for NATIVE replay of fault counterexamples: the check
// generates a copy of rules/standard/storage.go whose badger import points
// here (go test -overlay); nothing of it is committed to the repository.
package fbadger

import (
	"errors"

	"github.com/attestantio/dirk/zzverif/vsym"
	badger "github.com/dgraph-io/badger/v2"
)

type Options = badger.Options
type IteratorOptions = badger.IteratorOptions

var (
	ErrKeyNotFound         = badger.ErrKeyNotFound
	DefaultIteratorOptions = badger.DefaultIteratorOptions
)

func DefaultOptions(path string) Options { return badger.DefaultOptions(path) }

type DB struct{ real *badger.DB }
type Txn struct{ real *badger.Txn }
type Item struct{ real *badger.Item }
type Iterator struct{ real *badger.Iterator }

type WriteBatch struct {
	db   *DB
	keys [][]byte
	vals [][]byte
}

func inj(what string) error { return errors.New("injected: " + what) }

func Open(opt Options) (*DB, error) {
	if vsym.Fault("badger.Open") {
		return nil, inj("badger.Open failed")
	}
	db, err := badger.Open(opt)
	if err != nil {
		return nil, err
	}
	return &DB{real: db}, nil
}

func (db *DB) Close() error                      { return db.real.Close() }
func (db *DB) RunValueLogGC(ratio float64) error { return db.real.RunValueLogGC(ratio) }

func (db *DB) View(fn func(txn *Txn) error) error {
	vsym.Yield("badger.View")
	vsym.CrashPoint("badger.View")
	if db.real.IsClosed() {
		return badger.ErrDBClosed
	}
	if vsym.Fault("badger.View") {
		return inj("badger.View failed")
	}
	return db.real.View(func(t *badger.Txn) error { return fn(&Txn{real: t}) })
}

func (db *DB) Update(fn func(txn *Txn) error) error {
	vsym.Yield("badger.Update")
	vsym.CrashPoint("badger.Update/begin")
	if db.real.IsClosed() {
		return badger.ErrDBClosed
	}
	if vsym.Fault("badger.Update") {
		return inj("badger.Update failed")
	}
	failAfterCommit := false
	err := db.real.Update(func(t *badger.Txn) error {
		if err := fn(&Txn{real: t}); err != nil {
			return err
		}
		vsym.CrashPoint("badger.Update/before-commit")
		if vsym.Fault("badger.Commit") {
			if vsym.Fault("badger.Commit/persisted-anyway") {
				failAfterCommit = true
				return nil
			}
			return inj("badger commit failed")
		}
		return nil
	})
	if err == nil && failAfterCommit {
		return inj("badger commit failed")
	}
	if err == nil {
		vsym.CrashPoint("badger.Update/after-commit")
	}
	return err
}

func (t *Txn) Get(key []byte) (*Item, error) {
	if len(key) == 0 {
		return nil, badger.ErrEmptyKey
	}
	if vsym.Fault("badger.Get") {
		return nil, inj("badger.Get failed")
	}
	it, err := t.real.Get(key)
	if err != nil {
		return nil, err
	}
	return &Item{real: it}, nil
}

func (t *Txn) Set(key, val []byte) error {
	if len(key) == 0 {
		return badger.ErrEmptyKey
	}
	if vsym.Fault("badger.Set") {
		return inj("badger.Set failed")
	}
	return t.real.Set(key, val)
}

func (t *Txn) NewIterator(opt IteratorOptions) *Iterator {
	return &Iterator{real: t.real.NewIterator(opt)}
}

func (i *Item) Value(fn func(val []byte) error) error {
	_ = i.real // a nil item (failed Get) dereferences here, as the real one does
	if vsym.Fault("badger.Item.Value") {
		return inj("badger Item.Value failed")
	}
	// badger's contract: the slice is only valid inside the callback (the buffer is reused).  Real
	// badger reuses it only after ~100 further items; here, as in the executor's model, it is
	// overwritten at once, so that code which keeps the slice without copying it shows natively too.
	return i.real.Value(func(val []byte) error {
		buf := append([]byte(nil), val...)
		err := fn(buf)
		for k := range buf {
			buf[k] = 0xdb
		}
		return err
	})
}

func (i *Item) ValueCopy(dst []byte) ([]byte, error) { return i.real.ValueCopy(dst) }
func (i *Item) Key() []byte { return i.real.Key() }

func (it *Iterator) Rewind()     { it.real.Rewind() }
func (it *Iterator) Valid() bool { return it.real.Valid() }
func (it *Iterator) Next()       { it.real.Next() }
func (it *Iterator) Item() *Item { return &Item{real: it.real.Item()} }
func (it *Iterator) Close()      { it.real.Close() }

func (db *DB) NewWriteBatch() *WriteBatch { return &WriteBatch{db: db} }

func (wb *WriteBatch) Set(key, val []byte) error {
	if wb.db.real.IsClosed() {
		return badger.ErrDBClosed
	}
	if vsym.Fault("badger.WriteBatch.Set") {
		return inj("WriteBatch.Set failed")
	}
	wb.keys = append(wb.keys, append([]byte(nil), key...))
	wb.vals = append(wb.vals, append([]byte(nil), val...))
	return nil
}

func (wb *WriteBatch) Flush() error {
	vsym.Yield("badger.Flush")
	vsym.CrashPoint("badger.Flush/begin")
	if wb.db.real.IsClosed() {
		return badger.ErrDBClosed
	}
	if vsym.Fault("badger.Flush") {
		for k := range wb.keys {
			if vsym.Fault("badger.Flush/partial") {
				k := k
				_ = wb.db.real.Update(func(t *badger.Txn) error { return t.Set(wb.keys[k], wb.vals[k]) })
			}
		}
		return inj("WriteBatch.Flush failed")
	}
	if vsym.CrashSelected("badger.Flush/mid") {
		// the process dies while the batch is being written: an arbitrary subset reached the disk
		for k := range wb.keys {
			if vsym.CrashSubset(k) {
				k := k
				_ = wb.db.real.Update(func(t *badger.Txn) error { return t.Set(wb.keys[k], wb.vals[k]) })
			}
		}
		vsym.CrashNow()
	}
	b := wb.db.real.NewWriteBatch()
	defer b.Cancel()
	for k := range wb.keys {
		if err := b.Set(wb.keys[k], wb.vals[k]); err != nil {
			return err
		}
	}
	if err := b.Flush(); err != nil {
		return err
	}
	vsym.CrashPoint("badger.Flush/after")
	return nil
}

func (wb *WriteBatch) Cancel() {}

// ---- explicit transactions ----

func (db *DB) NewTransaction(update bool) *Txn { return &Txn{real: db.real.NewTransaction(update)} }
func (t *Txn) Discard()                        { t.real.Discard() }

func (t *Txn) Commit() error {
	vsym.CrashPoint("badger.Txn.Commit/before-commit")
	if vsym.Fault("badger.Commit") {
		if vsym.Fault("badger.Commit/persisted-anyway") {
			_ = t.real.Commit()
		} else {
			t.real.Discard()
		}
		return inj("badger commit failed")
	}
	if err := t.real.Commit(); err != nil {
		return err
	}
	vsym.CrashPoint("badger.Txn.Commit/after-commit")
	return nil
}

func (t *Txn) CommitWith(cb func(error)) {
	go func() {
		vsym.CrashPoint("badger.Txn.CommitWith/before-commit")
		err := t.real.Commit()
		vsym.CrashPoint("badger.Txn.CommitWith/after-commit")
		if cb != nil {
			cb(err)
		}
	}()
}
