// Package vsync: drop-in replacements for the parts of package sync that dirk's locker uses, which
// announce every visible operation to vsym.Yield before delegating to the real sync types.  It
// exists only for NATIVE replay of schedule counterexamples (C04/C15): the check generates a copy
// of services/locker/syncmap/service.go whose "sync" import points here (go test -overlay);
// nothing of it is committed to the repository.  The operation names are those of the executor's
// scheduler model (engine/symx/synchooks.go).
package vsync

import (
	"sync"

	"github.com/attestantio/dirk/zzverif/vsym"
)

type (
	RWMutex   = sync.RWMutex
	WaitGroup = sync.WaitGroup
	Once      = sync.Once
	Pool      = sync.Pool
	Cond      = sync.Cond
	Locker    = sync.Locker
)

// Mutex is sync.Mutex with a scheduling announcement before Lock.  Unlocking an unlocked mutex is
// an ordinary (recoverable) panic here, with the runtime's message, so that the replay can report
// it instead of dying.
type Mutex struct {
	mu     sync.Mutex
	state  sync.Mutex
	locked bool
}

func (m *Mutex) Lock() {
	vsym.Yield("Mutex.Lock")
	m.mu.Lock()
	m.state.Lock()
	m.locked = true
	m.state.Unlock()
}

func (m *Mutex) TryLock() bool {
	if m.mu.TryLock() {
		m.state.Lock()
		m.locked = true
		m.state.Unlock()
		return true
	}
	return false
}

func (m *Mutex) Unlock() {
	m.state.Lock()
	if !m.locked {
		m.state.Unlock()
		panic("fatal error: sync: unlock of unlocked mutex")
	}
	m.locked = false
	m.state.Unlock()
	m.mu.Unlock()
}

// Map is sync.Map with scheduling announcements.
type Map struct{ m sync.Map }

func (m *Map) Load(key any) (any, bool) { vsym.Yield("sync.Map.Load"); return m.m.Load(key) }
func (m *Map) Store(key, value any)     { vsym.Yield("sync.Map.Store"); m.m.Store(key, value) }
func (m *Map) LoadOrStore(key, value any) (any, bool) {
	vsym.Yield("sync.Map.LoadOrStore")
	return m.m.LoadOrStore(key, value)
}
func (m *Map) LoadAndDelete(key any) (any, bool) {
	vsym.Yield("sync.Map.LoadAndDelete")
	return m.m.LoadAndDelete(key)
}
func (m *Map) Delete(key any)                     { vsym.Yield("sync.Map.Delete"); m.m.Delete(key) }
func (m *Map) Range(f func(key, value any) bool) { m.m.Range(f) }
