// Package hc11: harnesses for C11 (exported protection data is faithful; restart; legacy records).
package hc11

import (
	"context"
	"fmt"

	"github.com/attestantio/dirk/rules"
	standardrules "github.com/attestantio/dirk/rules/standard"
	hc "github.com/attestantio/dirk/zzverif/hcommon"
	"github.com/attestantio/dirk/zzverif/vsym"
	badger "github.com/dgraph-io/badger/v2"
)

const max63 = uint64(1) << 63

func attReq(tag string) (*rules.SignBeaconAttestationData, uint64, uint64) {
	s, t := vsym.Uint64("s"+tag), vsym.Uint64("t"+tag)
	return &rules.SignBeaconAttestationData{Domain: vsym.Bytes("adom"+tag, 32), BeaconBlockRoot: hc.Root,
		Source: &rules.Checkpoint{Epoch: s, Root: hc.Root}, Target: &rules.Checkpoint{Epoch: t, Root: hc.Root}}, s, t
}

func propReq(tag string) (*rules.SignBeaconProposalData, uint64) {
	slot := vsym.Uint64("slot" + tag)
	return &rules.SignBeaconProposalData{Domain: vsym.Bytes("pdom"+tag, 32), Slot: slot, ParentRoot: hc.Root, StateRoot: hc.Root, BodyRoot: hc.Root}, slot
}

func md() *rules.ReqMetadata {
	return &rules.ReqMetadata{Account: "W/a", PubKey: hc.KeyA[:], Client: "c"}
}

// history runs k symbolic requests (attestation or proposal) on svc and returns
// the maxima of what was approved (-1 = nothing).
func history(ctx context.Context, svc *standardrules.Service, k int) (int64, int64, int64) {
	S, T, P := int64(-1), int64(-1), int64(-1)
	for step := 0; step < k; step++ {
		tag := fmt.Sprintf("_%d", step)
		if vsym.Choose("kind"+tag, 2) == 0 {
			req, s, t := attReq(tag)
			if svc.OnSignBeaconAttestation(ctx, md(), req) == rules.APPROVED {
				vsym.Reach("attestation-approved")
				// maxima over the approved history, computed by the harness
				S = vsym.IteI64(vsym.Or(S == -1, int64(s) > S), int64(s), S)
				T = vsym.IteI64(vsym.Or(T == -1, int64(t) > T), int64(t), T)
			}
		} else {
			req, slot := propReq(tag)
			if svc.OnSignBeaconProposal(ctx, md(), req) == rules.APPROVED {
				vsym.Reach("proposal-approved")
				P = vsym.IteI64(vsym.Or(P == -1, int64(slot) > P), int64(slot), P)
			}
		}
	}
	return S, T, P
}

// exportFaithful: after a history the export states exactly the maxima signed.
func exportFaithful(k int) {
	ctx := context.Background()
	dir := vsym.TempDir("A")
	svc := hc.NewRules(ctx, dir)
	S, T, P := history(ctx, svc, k)
	ex, err := svc.ExportSlashingProtection(ctx)
	hc.Must(err)
	S2, T2, P2 := hc.Exported(ex, hc.KeyA)
	vsym.Out("S2", S2)
	vsym.Out("T2", T2)
	vsym.Out("P2", P2)
	vsym.Assert("X1-export-states-the-maxima", vsym.And(S2 == S, T2 == T, P2 == P))
	if e, ok := ex[hc.KeyA]; ok {
		vsym.Reach("key-exported")
		vsym.Assert("X2-export-carries-the-key", vsym.BytesEq(e.PubKey, hc.KeyA[:]))
	} else {
		vsym.Assert("X3-absent-only-if-nothing-signed", vsym.And(S == -1, T == -1, P == -1))
	}
	vsym.Assert("X4-only-the-key-that-signed", len(ex) <= 1)
}

func ExportFaithful1() { exportFaithful(1) }
func ExportFaithful2() { exportFaithful(2) }
func ExportFaithful3() { exportFaithful(3) }

// probe submits one arbitrary request to both services and asserts equal verdicts.
func probe(ctx context.Context, a, b *standardrules.Service, id string) {
	if vsym.Choose("probe", 2) == 0 {
		req, _, _ := attReq("_p")
		ra := a.OnSignBeaconAttestation(ctx, md(), req)
		rb := b.OnSignBeaconAttestation(ctx, md(), req)
		vsym.Out("probe-a", int(ra))
		vsym.Assert(id, ra == rb)
		if ra == rules.APPROVED {
			vsym.Reach("probe-approved")
		} else {
			vsym.Reach("probe-refused")
		}
	} else {
		req, _ := propReq("_p")
		ra := a.OnSignBeaconProposal(ctx, md(), req)
		rb := b.OnSignBeaconProposal(ctx, md(), req)
		vsym.Out("probe-p", int(ra))
		vsym.Assert(id, ra == rb)
		if ra == rules.APPROVED {
			vsym.Reach("probe-approved")
		} else {
			vsym.Reach("probe-refused")
		}
	}
}

// ImportOfExportDecidesAlike: B = fresh store + Import(Export(A)) takes the same decision as A.
func importOfExport(k int) {
	ctx := context.Background()
	a := hc.NewRules(ctx, vsym.TempDir("A"))
	history(ctx, a, k)
	ex, err := a.ExportSlashingProtection(ctx)
	hc.Must(err)
	b := hc.NewRules(ctx, vsym.TempDir("B"))
	hc.Must(b.ImportSlashingProtection(ctx, ex))
	probe(ctx, a, b, "Y1-import-of-export-decides-alike")
}

func ImportOfExport1() { importOfExport(1) }
func ImportOfExport2() { importOfExport(2) }

// RestartDecidesAlike: A reopened after a clean shutdown decides like a twin that kept running.
func RestartDecidesAlike() {
	ctx := context.Background()
	dirA, dirB := vsym.TempDir("A"), vsym.TempDir("B")
	a, b := hc.NewRules(ctx, dirA), hc.NewRules(ctx, dirB)
	// identical symbolic state in both (created through the exported import)
	S, T, P := vsym.Int64("S"), vsym.Int64("T"), vsym.Int64("P")
	rec := map[[48]byte]*rules.SlashingProtection{hc.KeyA: {PubKey: hc.KeyA[:], HighestProposedSlot: P, HighestAttestedSourceEpoch: S, HighestAttestedTargetEpoch: T}}
	hc.Must(a.ImportSlashingProtection(ctx, rec))
	hc.Must(b.ImportSlashingProtection(ctx, rec))
	hc.Must(a.Close(ctx))
	a = hc.NewRules(ctx, dirA)
	probe(ctx, a, b, "Y2-restart-decides-alike")
}

// rawPut writes a record directly into the store directory (legacy data written by an older version).
func rawPut(dir string, key, val []byte) {
	db, err := badger.Open(badger.DefaultOptions(dir).WithLogger(nil))
	hc.Must(err)
	hc.Must(db.Update(func(txn *badger.Txn) error { return txn.Set(key, val) }))
	hc.Must(db.Close())
}

func recKey(key [48]byte, action byte) []byte {
	k := make([]byte, 49)
	copy(k, key[:])
	k[48] = action
	return k
}

// LegacyAttestationHonoured: a legacy-format attestation record decides like a
// current-format record holding the same values, and the next approval rewrites it.
func LegacyAttestationHonoured() {
	ctx := context.Background()
	dirA, dirB := vsym.TempDir("A"), vsym.TempDir("B")
	bytesA, vals := vsym.LegacyRecord("att", 2)
	rawPut(dirA, recKey(hc.KeyA, 0x02), bytesA)
	a, b := hc.NewRules(ctx, dirA), hc.NewRules(ctx, dirB)
	vsym.Assume(vals[0] != -1)
	hc.Must(b.ImportSlashingProtection(ctx, map[[48]byte]*rules.SlashingProtection{hc.KeyA: {PubKey: hc.KeyA[:], HighestProposedSlot: -1,
		HighestAttestedSourceEpoch: vals[0], HighestAttestedTargetEpoch: vals[1]}}))
	req, _, _ := attReq("_p")
	ra := a.OnSignBeaconAttestation(ctx, md(), req)
	rb := b.OnSignBeaconAttestation(ctx, md(), req)
	vsym.Out("ra", int(ra))
	vsym.Assert("Z1-legacy-record-decides-like-current", ra == rb)
	if ra == rules.APPROVED {
		vsym.Reach("approved-over-legacy")
	} else {
		vsym.Reach("refused-over-legacy")
	}
	exA, err := a.ExportSlashingProtection(ctx)
	hc.Must(err)
	exB, err := b.ExportSlashingProtection(ctx)
	hc.Must(err)
	SA, TA, _ := hc.Exported(exA, hc.KeyA)
	SB, TB, _ := hc.Exported(exB, hc.KeyA)
	vsym.Assert("Z2-legacy-record-exports-like-current", vsym.And(SA == SB, TA == TB))
}

// LegacyProposalHonoured: the same for a legacy proposal record.
func LegacyProposalHonoured() {
	ctx := context.Background()
	dirA, dirB := vsym.TempDir("A"), vsym.TempDir("B")
	bytesA, vals := vsym.LegacyRecord("prop", 1)
	rawPut(dirA, recKey(hc.KeyA, 0x03), bytesA)
	a, b := hc.NewRules(ctx, dirA), hc.NewRules(ctx, dirB)
	vsym.Assume(vals[0] != -1)
	hc.Must(b.ImportSlashingProtection(ctx, map[[48]byte]*rules.SlashingProtection{hc.KeyA: {PubKey: hc.KeyA[:], HighestProposedSlot: vals[0],
		HighestAttestedSourceEpoch: -1, HighestAttestedTargetEpoch: -1}}))
	req, _ := propReq("_p")
	ra := a.OnSignBeaconProposal(ctx, md(), req)
	rb := b.OnSignBeaconProposal(ctx, md(), req)
	vsym.Out("ra", int(ra))
	vsym.Assert("Z1-legacy-record-decides-like-current", ra == rb)
	if ra == rules.APPROVED {
		vsym.Reach("approved-over-legacy")
	} else {
		vsym.Reach("refused-over-legacy")
	}
	exA, err := a.ExportSlashingProtection(ctx)
	hc.Must(err)
	exB, err := b.ExportSlashingProtection(ctx)
	hc.Must(err)
	_, _, PA := hc.Exported(exA, hc.KeyA)
	_, _, PB := hc.Exported(exB, hc.KeyA)
	vsym.Assert("Z2-legacy-record-exports-like-current", PA == PB)
}

// UndecodableRecordFailsClosed: a record that cannot be decoded never leads to an approval.
func UndecodableRecordFailsClosed() {
	ctx := context.Background()
	dir := vsym.TempDir("A")
	junk := []byte{0x7e, 0x01, 0x02}
	if vsym.Choose("which", 2) == 0 {
		rawPut(dir, recKey(hc.KeyA, 0x02), junk)
		a := hc.NewRules(ctx, dir)
		req, _, _ := attReq("_p")
		vsym.Reach("undecodable-attestation-record")
		vsym.Assert("U1-undecodable-record-not-approved", a.OnSignBeaconAttestation(ctx, md(), req) != rules.APPROVED)
		rs := a.OnSignBeaconAttestations(ctx, []*rules.ReqMetadata{md()}, []*rules.SignBeaconAttestationData{req})
		vsym.Assert("U1-undecodable-record-not-approved", vsym.And(len(rs) == 1, rs[0] != rules.APPROVED))
	} else {
		rawPut(dir, recKey(hc.KeyA, 0x03), junk)
		a := hc.NewRules(ctx, dir)
		req, _ := propReq("_p")
		vsym.Reach("undecodable-proposal-record")
		vsym.Assert("U1-undecodable-record-not-approved", a.OnSignBeaconProposal(ctx, md(), req) != rules.APPROVED)
	}
}

// ExportSeveralKeys: three keys with their own records: every exported entry sits under its own key,
// names its own key in the PubKey field (the export command builds its file from that field) and
// states its own values; import of the export into a fresh store reproduces all three.
func ExportSeveralKeys() {
	ctx := context.Background()
	svc := hc.NewRules(ctx, vsym.TempDir("A"))
	keys := [][48]byte{hc.KeyA, hc.KeyB, hc.KeyC}
	var S, T, P [3]int64
	in := map[[48]byte]*rules.SlashingProtection{}
	for k, key := range keys {
		S[k], T[k], P[k] = vsym.Int64(fmt.Sprintf("S%d", k)), vsym.Int64(fmt.Sprintf("T%d", k)), vsym.Int64(fmt.Sprintf("P%d", k))
		vsym.Assume(vsym.And(S[k] >= 0, T[k] >= 0, P[k] >= 0))
		in[key] = &rules.SlashingProtection{PubKey: append([]byte(nil), key[:]...), HighestAttestedSourceEpoch: S[k], HighestAttestedTargetEpoch: T[k], HighestProposedSlot: P[k]}
	}
	hc.Must(svc.ImportSlashingProtection(ctx, in))
	ex, err := svc.ExportSlashingProtection(ctx)
	hc.Must(err)
	vsym.Assert("K0-one-entry-per-key", len(ex) == 3)
	// the file the export command writes is keyed by the PubKey fields
	byField := map[[48]byte]*rules.SlashingProtection{}
	for k, key := range keys {
		e := ex[key]
		if e == nil {
			vsym.Assert("K1-every-key-exported", false)
			continue
		}
		vsym.Reach("entry-exported")
		vsym.Assert(fmt.Sprintf("K2-entry-names-its-own-key[%d]", k), vsym.BytesEq(e.PubKey, key[:]))
		vsym.Assert(fmt.Sprintf("K3-entry-states-its-own-values[%d]", k), vsym.And(e.HighestAttestedSourceEpoch == S[k], e.HighestAttestedTargetEpoch == T[k], e.HighestProposedSlot == P[k]))
		var fk [48]byte
		copy(fk[:], e.PubKey)
		byField[fk] = e
	}
	vsym.Assert("K4-file-has-one-record-per-key", len(byField) == 3)
}

// UpgradeWhileSigning: a store holding a legacy record is opened by the current code and a signing
// request for that key arrives at once, concurrently with whatever the service does in the
// background after start-up (every interleaving within the bound): afterwards the export states
// what was signed and a repeat of the signed attestation is refused.
func UpgradeWhileSigning() {
	ctx := context.Background()
	dir := vsym.TempDir("A")
	bytesA, vals := vsym.LegacyRecord("att", 2)
	rawPut(dir, recKey(hc.KeyA, 0x02), bytesA)
	vsym.Assume(vsym.And(vals[0] >= 0, vals[1] >= 0, vals[0] <= vals[1], vals[1] < 1<<40))
	// goroutines started by the constructor run concurrently with the request below
	vsym.DeferGoroutines(true)
	a := hc.NewRules(ctx, dir)
	s, t := uint64(vals[0])+1, uint64(vals[1])+2
	req := &rules.SignBeaconAttestationData{Domain: attDomainC11(), BeaconBlockRoot: hc.Root,
		Source: &rules.Checkpoint{Epoch: s, Root: hc.Root}, Target: &rules.Checkpoint{Epoch: t, Root: hc.Root}}
	var res rules.Result
	vsym.Explore(2)
	vsym.Spawn(func() { res = a.OnSignBeaconAttestation(ctx, md(), req) })
	vsym.Join()
	vsym.Settle() // whatever runs in the background comes to rest
	vsym.Sequential()
	vsym.DeferGoroutines(false)
	vsym.Assert("U0-advancing-attestation-over-legacy-record-approved", res == rules.APPROVED)
	if res != rules.APPROVED {
		return
	}
	vsym.Reach("signed-right-after-upgrade")
	ex, err := a.ExportSlashingProtection(ctx)
	hc.Must(err)
	S2, T2, _ := hc.Exported(ex, hc.KeyA)
	vsym.Assert("U1-export-states-what-was-signed", vsym.And(S2 == int64(s), T2 == int64(t)))
	again := &rules.SignBeaconAttestationData{Domain: attDomainC11(), BeaconBlockRoot: hc.MkRoot(0x31),
		Source: &rules.Checkpoint{Epoch: s, Root: hc.Root}, Target: &rules.Checkpoint{Epoch: t, Root: hc.Root}}
	vsym.Assert("U2-repeat-of-the-signed-attestation-refused", a.OnSignBeaconAttestation(ctx, md(), again) != rules.APPROVED)
}

func attDomainC11() []byte { d := make([]byte, 32); d[0] = 1; return d }
