// Package hcommon: helpers shared by harness packages (instance wiring over
// dirk's exported constructors).
package hcommon

import (
	"context"

	"github.com/attestantio/dirk/rules"
	standardrules "github.com/attestantio/dirk/rules/standard"
	"github.com/attestantio/dirk/services/checker"
	"github.com/attestantio/dirk/services/fetcher"
	"github.com/attestantio/dirk/services/locker/syncmap"
	"github.com/attestantio/dirk/services/ruler"
	"github.com/attestantio/dirk/services/ruler/golang"
	"github.com/attestantio/dirk/services/signer"
	standardsigner "github.com/attestantio/dirk/services/signer/standard"
	"github.com/attestantio/dirk/services/unlocker"
	"github.com/attestantio/dirk/zzverif/stubs"
	"github.com/attestantio/dirk/zzverif/vsym"
)

var (
	KeyA = MkKey(0xa1)
	KeyB = MkKey(0xb2)
	KeyC = MkKey(0xc3)
	Root = MkRoot(0x11)
	Keys = [][48]byte{KeyA, KeyB, KeyC}
)

func MkKey(b byte) [48]byte {
	var k [48]byte
	for i := range k {
		k[i] = b
	}
	k[47] = 0x01
	return k
}

func MkRoot(b byte) []byte {
	r := make([]byte, 32)
	for i := range r {
		r[i] = b
	}
	return r
}

// Must ends the path (it is outside the claim) when a set-up step fails.
func Must(err error) {
	if err != nil {
		vsym.Assume(false)
	}
}

func NewRules(ctx context.Context, dir string, adminIPs ...string) *standardrules.Service {
	params := []standardrules.Parameter{standardrules.WithStoragePath(dir)}
	if len(adminIPs) > 0 {
		params = append(params, standardrules.WithAdminIPs(adminIPs))
	}
	rs, err := standardrules.New(ctx, params...)
	Must(err)
	return rs
}

func NewRuler(ctx context.Context, rulesSvc rules.Service) ruler.Service {
	lock, err := syncmap.New(ctx)
	Must(err)
	r, err := golang.New(ctx, golang.WithLocker(lock), golang.WithRules(rulesSvc))
	Must(err)
	return r
}

// Instance is one Dirk "process": rules on a directory, runner, locker, signer.
type Instance struct {
	Rules  *standardrules.Service
	Ruler  ruler.Service
	Signer signer.Service
	Log    *stubs.Log
	Wallet *stubs.Wallet
}

type Deps struct {
	Checker  checker.Service
	Fetcher  fetcher.Service
	Unlocker unlocker.Service
	Ruler    ruler.Service
	AdminIPs []string
}

// Start wires the real signer, runner, locker and rules over stub wallet services.
func Start(ctx context.Context, dir string, log *stubs.Log, d *Deps) *Instance {
	if d == nil {
		d = &Deps{}
	}
	in := &Instance{Log: log}
	in.Rules = NewRules(ctx, dir, d.AdminIPs...)
	in.Wallet = stubs.NewWallet(log, "W", []string{"a", "b", "c"}, [][48]byte{KeyA, KeyB, KeyC})
	if d.Checker == nil {
		d.Checker = &stubs.Checker{L: log}
	}
	if d.Fetcher == nil {
		d.Fetcher = &stubs.Fetcher{Wallets: []*stubs.Wallet{in.Wallet}, L: log}
	}
	if d.Unlocker == nil {
		d.Unlocker = &stubs.Unlocker{L: log, Knows: true}
	}
	in.Ruler = d.Ruler
	if in.Ruler == nil {
		in.Ruler = NewRuler(ctx, in.Rules)
	}
	sg, err := standardsigner.New(ctx,
		standardsigner.WithChecker(d.Checker),
		standardsigner.WithFetcher(d.Fetcher),
		standardsigner.WithUnlocker(d.Unlocker),
		standardsigner.WithRuler(in.Ruler),
	)
	Must(err)
	in.Signer = sg
	return in
}

// Exported returns the exported (source, target, slot) for key, -1 when absent.
func Exported(ex map[[48]byte]*rules.SlashingProtection, key [48]byte) (int64, int64, int64) {
	if e, ok := ex[key]; ok && e != nil {
		return e.HighestAttestedSourceEpoch, e.HighestAttestedTargetEpoch, e.HighestProposedSlot
	}
	return -1, -1, -1
}

// ReopenAndExport closes svc, opens a fresh service on the same directory (restart) and exports.
func ReopenAndExport(ctx context.Context, svc *standardrules.Service, dir string) map[[48]byte]*rules.SlashingProtection {
	Must(svc.Close(ctx))
	svc2 := NewRules(ctx, dir)
	ex, err := svc2.ExportSlashingProtection(ctx)
	Must(err)
	_ = svc2.Close(ctx)
	return ex
}

func Creds() *checker.Credentials { return &checker.Credentials{Client: "c", RequestID: "r"} }
