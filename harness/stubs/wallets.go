package stubs

// Wallet-library model used by the symbolic executor: dirk reaches the wallet
// libraries (go-eth2-wallet, -distributed, -nd) through OpenWallet /
// DeserializeWallet; the executor redirects those entry points to OpenWallet /
// WalletFromBytes below.  The stub wallet keeps the argument checks of the real
// ImportDistributedAccount; key material goes through the (modelled) BLS API.
// Natively the harnesses use the real libraries over a scratch store instead.

import (
	"context"
	"errors"
	"fmt"
	"strings"

	"github.com/google/uuid"
	"github.com/herumi/bls-eth-go-binary/bls"
	e2types "github.com/wealdtech/go-eth2-types/v2"
	e2wtypes "github.com/wealdtech/go-eth2-wallet-types/v2"
)

type Store struct {
	N  string
	Ws []*DWallet
}

func (s *Store) Name() string { return s.N }
func (s *Store) StoreWallet(walletID uuid.UUID, walletName string, data []byte) error {
	return nil
}
func (s *Store) RetrieveWallets() <-chan []byte {
	ch := make(chan []byte, len(s.Ws))
	for _, w := range s.Ws {
		ch <- w.marker()
	}
	close(ch)
	return ch
}
func (s *Store) RetrieveWallet(walletName string) ([]byte, error) {
	for _, w := range s.Ws {
		if w.N == walletName {
			return w.marker(), nil
		}
	}
	return nil, errors.New("wallet not found")
}
func (s *Store) RetrieveWalletByID(walletID uuid.UUID) ([]byte, error) {
	for _, w := range s.Ws {
		if w.Id == walletID {
			return w.marker(), nil
		}
	}
	return nil, errors.New("wallet not found")
}
func (s *Store) StoreAccount(walletID uuid.UUID, accountID uuid.UUID, data []byte) error { return nil }
func (s *Store) RetrieveAccounts(walletID uuid.UUID) <-chan []byte {
	ch := make(chan []byte)
	close(ch)
	return ch
}
func (s *Store) RetrieveAccount(walletID uuid.UUID, accountID uuid.UUID) ([]byte, error) {
	return nil, errors.New("not found")
}
func (s *Store) StoreAccountsIndex(walletID uuid.UUID, data []byte) error { return nil }
func (s *Store) RetrieveAccountsIndex(walletID uuid.UUID) ([]byte, error) {
	return nil, errors.New("not found")
}

// OpenWallet is what the executor runs in place of the libraries' OpenWallet.
func OpenWallet(store e2wtypes.Store, name string) (e2wtypes.Wallet, error) {
	s, ok := store.(*Store)
	if !ok || s == nil {
		return nil, errors.New("no store specified")
	}
	for _, w := range s.Ws {
		if w.N == name {
			return w, nil
		}
	}
	return nil, errors.New("wallet not found")
}

// WalletFromBytes is what the executor runs in place of the libraries' DeserializeWallet.
func WalletFromBytes(store e2wtypes.Store, data []byte) (e2wtypes.Wallet, error) {
	s, ok := store.(*Store)
	if !ok || s == nil {
		return nil, errors.New("no store specified")
	}
	for _, w := range s.Ws {
		if string(w.marker()) == string(data) {
			return w, nil
		}
	}
	return nil, errors.New("unknown wallet data")
}

type Encryptor struct{}

func (Encryptor) Name() string   { return "stub" }
func (Encryptor) Version() uint  { return 1 }
func (Encryptor) String() string { return "stubv1" }
func (Encryptor) Encrypt(data []byte, key string) (map[string]any, error) {
	return map[string]any{}, nil
}
func (Encryptor) Decrypt(data map[string]any, key string) ([]byte, error) { return nil, nil }

// DWallet is a stub wallet of type "distributed" or "non-deterministic".
type DWallet struct {
	Id       uuid.UUID
	N        string
	T        string
	Unlocked bool
	Accts    []e2wtypes.Account
	L        *Log
}

func NewDWallet(l *Log, name, typ string, n byte) *DWallet {
	return &DWallet{Id: uuid.UUID{0x30, n}, N: name, T: typ, L: l}
}

func (w *DWallet) marker() []byte {
	return []byte(fmt.Sprintf(`{"uuid":"%s","name":"%s","type":"%s"}`, w.Id.String(), w.N, w.T))
}
func (w *DWallet) ID() uuid.UUID { return w.Id }
func (w *DWallet) Type() string  { return w.T }
func (w *DWallet) Name() string  { return w.N }
func (w *DWallet) Version() uint { return 1 }
func (w *DWallet) Lock(ctx context.Context) error {
	w.L.add("wallet.Lock:" + w.N)
	w.Unlocked = false
	return nil
}
func (w *DWallet) Unlock(ctx context.Context, passphrase []byte) error {
	w.L.add("wallet.Unlock:" + w.N)
	w.Unlocked = true
	return nil
}
func (w *DWallet) IsUnlocked(ctx context.Context) (bool, error) { return w.Unlocked, nil }
func (w *DWallet) Accounts(ctx context.Context) <-chan e2wtypes.Account {
	ch := make(chan e2wtypes.Account, len(w.Accts))
	for _, a := range w.Accts {
		ch <- a
	}
	close(ch)
	return ch
}
func (w *DWallet) AccountByName(ctx context.Context, name string) (e2wtypes.Account, error) {
	for _, a := range w.Accts {
		if a.Name() == name {
			return a, nil
		}
	}
	return nil, errors.New("no such account")
}
func (w *DWallet) AccountByID(ctx context.Context, id uuid.UUID) (e2wtypes.Account, error) {
	for _, a := range w.Accts {
		if a.ID() == id {
			return a, nil
		}
	}
	return nil, errors.New("no such account")
}

// ImportDistributedAccount keeps the argument checks of go-eth2-wallet-distributed v1.2.1.
func (w *DWallet) ImportDistributedAccount(ctx context.Context, name string, privatekey []byte, signingThreshold uint32,
	verificationVector [][]byte, participants map[uint64]string, passphrase []byte) (e2wtypes.Account, error) {
	if name == "" {
		return nil, errors.New("account name missing")
	}
	if strings.HasPrefix(name, "_") {
		return nil, fmt.Errorf("invalid account name %q", name)
	}
	if len(privatekey) == 0 {
		return nil, errors.New("private key missing")
	}
	if len(verificationVector) == 0 {
		return nil, errors.New("verification vector missing")
	}
	if len(participants) == 0 {
		return nil, errors.New("participants missing")
	}
	if signingThreshold <= uint32(len(participants)/2) {
		return nil, errors.New("invalid signing threshold:participant ratio")
	}
	if uint32(len(verificationVector)) != signingThreshold {
		return nil, errors.New("verification vector invalid")
	}
	if !w.Unlocked {
		return nil, errors.New("wallet must be unlocked to create accounts")
	}
	if _, err := w.AccountByName(ctx, name); err == nil {
		return nil, fmt.Errorf("account with name %q already exists", name)
	}
	a := &DAccount{Id: uuid.UUID{0x40, byte(len(w.Accts))}, N: name, Threshold: signingThreshold, W: w, Pass: string(passphrase), L: w.L,
		Parts: map[uint64]string{}}
	if err := a.Share.Deserialize(privatekey); err != nil {
		return nil, errors.New("failed to obtain BLS private key")
	}
	a.Pub = *a.Share.GetPublicKey()
	a.VVec = make([]bls.PublicKey, len(verificationVector))
	for i := range verificationVector {
		if err := a.VVec[i].Deserialize(verificationVector[i]); err != nil {
			return nil, fmt.Errorf("failed to obtain BLS public key for verification vector %d", i)
		}
	}
	for k, v := range participants {
		a.Parts[k] = v
	}
	w.Accts = append(w.Accts, a)
	w.L.add("wallet.ImportDistributedAccount:" + w.N + "/" + name)
	return a, nil
}

// DAccount is a stub distributed account over the BLS API.
type DAccount struct {
	Id        uuid.UUID
	N         string
	Share     bls.SecretKey
	Pub       bls.PublicKey
	VVec      []bls.PublicKey
	Threshold uint32
	Parts     map[uint64]string
	W         *DWallet
	Unlocked  bool
	Pass      string
	L         *Log
}

type BLSPub struct{ K bls.PublicKey }

func (p *BLSPub) Marshal() []byte                   { return p.K.Serialize() }
func (p *BLSPub) Aggregate(other e2types.PublicKey) {}
func (p *BLSPub) Copy() e2types.PublicKey           { return &BLSPub{K: p.K} }

type BLSSig struct{ S bls.Sign }

func (s *BLSSig) Verify(msg []byte, pub e2types.PublicKey) bool {
	p, ok := pub.(*BLSPub)
	return ok && s.S.VerifyByte(&p.K, msg)
}
func (s *BLSSig) VerifyAggregate(msgs [][]byte, pubKeys []e2types.PublicKey) bool    { return false }
func (s *BLSSig) VerifyAggregateCommon(msg []byte, pubKeys []e2types.PublicKey) bool { return false }
func (s *BLSSig) Marshal() []byte                                                    { return s.S.Serialize() }

func (a *DAccount) ID() uuid.UUID                         { return a.Id }
func (a *DAccount) Name() string                          { return a.N }
func (a *DAccount) PublicKey() e2types.PublicKey          { return &BLSPub{K: a.Pub} }
func (a *DAccount) CompositePublicKey() e2types.PublicKey { return &BLSPub{K: a.VVec[0]} }
func (a *DAccount) SigningThreshold() uint32              { return a.Threshold }
func (a *DAccount) Participants() map[uint64]string       { return a.Parts }
func (a *DAccount) Wallet() e2wtypes.Wallet               { return a.W }
func (a *DAccount) VerificationVector() []e2types.PublicKey {
	out := make([]e2types.PublicKey, len(a.VVec))
	for i := range a.VVec {
		out[i] = &BLSPub{K: a.VVec[i]}
	}
	return out
}
func (a *DAccount) Lock(ctx context.Context) error { a.Unlocked = false; return nil }
func (a *DAccount) Unlock(ctx context.Context, passphrase []byte) error {
	if string(passphrase) != a.Pass {
		return errors.New("incorrect passphrase")
	}
	a.Unlocked = true
	return nil
}
func (a *DAccount) IsUnlocked(ctx context.Context) (bool, error) { return a.Unlocked, nil }
func (a *DAccount) Sign(ctx context.Context, data []byte) (e2types.Signature, error) {
	if !a.Unlocked {
		return nil, errors.New("cannot sign when account is locked")
	}
	return &BLSSig{S: *a.Share.SignByte(data)}, nil
}

// PreparedScratchStores: the stores the wallet library's scratch.New() hands out in the executor, in
// order (the harness provisions them before the code under test asks for a scratch store).
var PreparedScratchStores []e2wtypes.Store

// NextScratchStore is what scratch.New() returns in the executor.
func NextScratchStore() e2wtypes.Store {
	if len(PreparedScratchStores) == 0 {
		return &Store{N: "scratch"}
	}
	s := PreparedScratchStores[0]
	PreparedScratchStores = PreparedScratchStores[1:]
	return s
}
