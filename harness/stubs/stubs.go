// Package stubs: harness-side implementations of dirk's exported service
// interfaces and of the wallet/account types, used where a property is not
// about that service.  They are ordinary Go: interpreted by the symbolic
// executor and compiled natively for replay.  Every stub is part of the claim
// of the check that uses it.
package stubs

import (
	"context"
	"errors"
	"strings"

	"github.com/attestantio/dirk/services/checker"
	"github.com/attestantio/dirk/zzverif/vsym"
	"github.com/google/uuid"
	e2types "github.com/wealdtech/go-eth2-types/v2"
	e2wtypes "github.com/wealdtech/go-eth2-wallet-types/v2"
)

// Log is the effect log shared by the stubs of one harness run.
type Log struct {
	Events []string
	Signs  []SignCall
	Checks []CheckCall
}

type SignCall struct {
	Account string
	Key     [48]byte
	Data    []byte
}

type CheckCall struct {
	Client, Account, Op string
}

func (l *Log) add(e string) {
	if l != nil {
		l.Events = append(l.Events, e)
	}
}

// ---- keys and signatures ----

type PubKey struct{ B []byte }

func (p *PubKey) Marshal() []byte                   { return append([]byte(nil), p.B...) }
func (p *PubKey) Aggregate(other e2types.PublicKey) {}
func (p *PubKey) Copy() e2types.PublicKey           { return &PubKey{B: append([]byte(nil), p.B...)} }

// Sig is the stub signature: keyTag(32) ‖ signed root(32) ‖ zeros(32).
type Sig struct{ B []byte }

func (s *Sig) Verify(msg []byte, pub e2types.PublicKey) bool {
	pk := pub.Marshal()
	return len(msg) == 32 && string(s.B[0:32]) == string(pk[0:32]) && string(s.B[32:64]) == string(msg)
}
func (s *Sig) VerifyAggregate(msgs [][]byte, pubKeys []e2types.PublicKey) bool    { return false }
func (s *Sig) VerifyAggregateCommon(msg []byte, pubKeys []e2types.PublicKey) bool { return false }
func (s *Sig) Marshal() []byte                                                    { return append([]byte(nil), s.B...) }

// ---- accounts and wallets ----

type Account struct {
	Id       uuid.UUID
	N        string
	Key      [48]byte
	Unlocked bool
	Pass     string
	W        *Wallet
	L        *Log
	// fault sites are prefixed with FaultTag so that they can be told apart per account
	FaultTag string
}

func (a *Account) ID() uuid.UUID                { return a.Id }
func (a *Account) Name() string                 { return a.N }
func (a *Account) PublicKey() e2types.PublicKey { return &PubKey{B: a.Key[:]} }
func (a *Account) Wallet() e2wtypes.Wallet      { return a.W }

func (a *Account) Lock(ctx context.Context) error {
	a.L.add("account.Lock:" + a.W.N + "/" + a.N)
	a.Unlocked = false
	return nil
}

func (a *Account) Unlock(ctx context.Context, passphrase []byte) error {
	a.L.add("account.Unlock:" + a.W.N + "/" + a.N)
	if string(passphrase) != a.Pass {
		return errors.New("incorrect passphrase")
	}
	a.Unlocked = true
	return nil
}

func (a *Account) IsUnlocked(ctx context.Context) (bool, error) {
	if vsym.Fault(a.FaultTag + "account.IsUnlocked") {
		return false, errors.New("injected: IsUnlocked failed")
	}
	return a.Unlocked, nil
}

func (a *Account) Sign(ctx context.Context, data []byte) (e2types.Signature, error) {
	if vsym.Fault(a.FaultTag + "account.Sign") {
		return nil, errors.New("injected: Sign failed")
	}
	if !a.Unlocked {
		return nil, errors.New("cannot sign when account is locked")
	}
	d := append([]byte(nil), data...)
	if a.L != nil {
		a.L.Signs = append(a.L.Signs, SignCall{Account: a.W.N + "/" + a.N, Key: a.Key, Data: d})
		a.L.add("sign:" + a.W.N + "/" + a.N)
	}
	// the signature exists from here on; the process may die at this very moment
	vsym.CrashPoint(a.FaultTag + "account.Sign")
	b := make([]byte, 96)
	copy(b[0:32], a.Key[0:32])
	copy(b[32:64], d)
	return &Sig{B: b}, nil
}

// NonSignerAccount is an account that cannot sign (no Sign method).
type NonSignerAccount struct {
	Id  uuid.UUID
	N   string
	Key [48]byte
}

func (a *NonSignerAccount) ID() uuid.UUID                { return a.Id }
func (a *NonSignerAccount) Name() string                 { return a.N }
func (a *NonSignerAccount) PublicKey() e2types.PublicKey { return &PubKey{B: a.Key[:]} }

type Wallet struct {
	Id       uuid.UUID
	N        string
	Accts    []e2wtypes.Account
	Unlocked bool
	Pass     string
	L        *Log
}

func (w *Wallet) ID() uuid.UUID { return w.Id }
func (w *Wallet) Type() string  { return "non-deterministic" }
func (w *Wallet) Name() string  { return w.N }
func (w *Wallet) Version() uint { return 1 }
func (w *Wallet) Accounts(ctx context.Context) <-chan e2wtypes.Account {
	ch := make(chan e2wtypes.Account, len(w.Accts))
	for _, a := range w.Accts {
		ch <- a
	}
	close(ch)
	return ch
}
func (w *Wallet) AccountByName(ctx context.Context, name string) (e2wtypes.Account, error) {
	for _, a := range w.Accts {
		if a.Name() == name {
			return a, nil
		}
	}
	return nil, errors.New("no such account")
}
func (w *Wallet) Lock(ctx context.Context) error {
	w.L.add("wallet.Lock:" + w.N)
	w.Unlocked = false
	return nil
}
func (w *Wallet) Unlock(ctx context.Context, passphrase []byte) error {
	w.L.add("wallet.Unlock:" + w.N)
	if string(passphrase) != w.Pass {
		return errors.New("incorrect passphrase")
	}
	w.Unlocked = true
	return nil
}
func (w *Wallet) IsUnlocked(ctx context.Context) (bool, error) { return w.Unlocked, nil }

// NewWallet builds a wallet with accounts named names[i] holding keys[i].
func NewWallet(l *Log, name string, names []string, keys [][48]byte) *Wallet {
	w := &Wallet{Id: uuid.UUID{0x10, byte(len(name))}, N: name, Unlocked: true, L: l}
	for k := range names {
		w.Accts = append(w.Accts, &Account{Id: uuid.UUID{0x20, byte(k)}, N: names[k], Key: keys[k], Unlocked: true, W: w, L: l, FaultTag: names[k] + ":"})
	}
	return w
}

// ---- fetcher ----

type Fetcher struct {
	Wallets []*Wallet
	L       *Log
}

func (f *Fetcher) FetchWallet(ctx context.Context, path string) (e2wtypes.Wallet, error) {
	if vsym.Fault("fetcher.FetchWallet") {
		return nil, errors.New("injected: FetchWallet failed")
	}
	name := path
	if k := strings.Index(path, "/"); k >= 0 {
		name = path[:k]
	}
	for _, w := range f.Wallets {
		if w.N == name {
			return w, nil
		}
	}
	return nil, errors.New("wallet not found")
}

func (f *Fetcher) FetchAccount(ctx context.Context, path string) (e2wtypes.Wallet, e2wtypes.Account, error) {
	if vsym.Fault("fetcher.FetchAccount:" + path) {
		return nil, nil, errors.New("injected: FetchAccount failed")
	}
	k := strings.Index(path, "/")
	if k < 0 {
		return nil, nil, errors.New("invalid account path")
	}
	for _, w := range f.Wallets {
		if w.N == path[:k] {
			for _, a := range w.Accts {
				if a.Name() == path[k+1:] {
					return w, a, nil
				}
			}
		}
	}
	return nil, nil, errors.New("account not found")
}

func (f *Fetcher) FetchAccountByKey(ctx context.Context, pubKey []byte) (e2wtypes.Wallet, e2wtypes.Account, error) {
	if vsym.Fault("fetcher.FetchAccountByKey") {
		return nil, nil, errors.New("injected: FetchAccountByKey failed")
	}
	// like the real fetcher (bytesutil.ToBytes48): the key is truncated or zero-padded to 48 bytes
	var k48 [48]byte
	copy(k48[:], pubKey)
	for _, w := range f.Wallets {
		for _, a := range w.Accts {
			if string(a.PublicKey().Marshal()) == string(k48[:]) {
				return w, a, nil
			}
		}
	}
	return nil, nil, errors.New("account not found")
}

func (f *Fetcher) FetchAccounts(ctx context.Context, path string) (map[string]e2wtypes.Account, error) {
	w, err := f.FetchWallet(ctx, path)
	if err != nil {
		return nil, err
	}
	out := map[string]e2wtypes.Account{}
	for _, a := range w.(*Wallet).Accts {
		out[a.Name()] = a
	}
	return out, nil
}

func (f *Fetcher) AddAccount(ctx context.Context, wallet e2wtypes.Wallet, account e2wtypes.Account) error {
	return errors.New("not supported by stub")
}

// ---- checker ----

// Checker allows everything unless Deny says otherwise; it records what it was asked.
type Checker struct {
	L    *Log
	Deny func(client, account, op string) bool
}

func (c *Checker) Check(ctx context.Context, credentials *checker.Credentials, account string, operation string) bool {
	client := ""
	if credentials != nil {
		client = credentials.Client
	}
	if c.L != nil {
		c.L.Checks = append(c.L.Checks, CheckCall{Client: client, Account: account, Op: operation})
	}
	if vsym.Fault("checker.Check:" + account) {
		return false
	}
	if c.Deny != nil && c.Deny(client, account, operation) {
		return false
	}
	return true
}

// ---- unlocker ----

type Unlocker struct {
	L *Log
	// Knows: whether the unlocker holds the right passphrase
	Knows bool
}

func (u *Unlocker) UnlockWallet(ctx context.Context, wallet e2wtypes.Wallet) (bool, error) {
	u.L.add("unlocker.UnlockWallet:" + wallet.Name())
	if vsym.Fault("unlocker.UnlockWallet") {
		return false, errors.New("injected: UnlockWallet failed")
	}
	if !u.Knows {
		return false, nil
	}
	if w, ok := wallet.(*Wallet); ok {
		w.Unlocked = true
	}
	return true, nil
}

func (u *Unlocker) UnlockAccount(ctx context.Context, wallet e2wtypes.Wallet, account e2wtypes.Account) (bool, error) {
	u.L.add("unlocker.UnlockAccount:" + wallet.Name() + "/" + account.Name())
	if vsym.Fault("unlocker.UnlockAccount:" + account.Name()) {
		return false, errors.New("injected: UnlockAccount failed")
	}
	if !u.Knows {
		return false, nil
	}
	if a, ok := account.(*Account); ok {
		a.Unlocked = true
	}
	return true, nil
}

// DistAccount is an Account that is this instance's share of a distributed validator key: besides its
// own (share) public key it names the composite key of the validator.
type DistAccount struct {
	*Account
	Composite [48]byte
}

func (a *DistAccount) CompositePublicKey() e2types.PublicKey { return &PubKey{B: a.Composite[:]} }
func (a *DistAccount) SigningThreshold() uint32              { return 2 }
func (a *DistAccount) VerificationVector() []e2types.PublicKey {
	return []e2types.PublicKey{&PubKey{B: a.Composite[:]}, &PubKey{B: a.Key[:]}}
}
func (a *DistAccount) Participants() map[uint64]string {
	return map[uint64]string{1: "signer-test01:8881", 2: "signer-test02:8882", 3: "signer-test03:8883"}
}

// MakeDistributed turns account k of the wallet into a share of a distributed key with the given composite key.
func (w *Wallet) MakeDistributed(k int, composite [48]byte) {
	if a, ok := w.Accts[k].(*Account); ok {
		w.Accts[k] = &DistAccount{Account: a, Composite: composite}
	}
}
