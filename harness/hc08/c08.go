// Package hc08: harnesses for C08 (every signature is for exactly the requested data and account).
// Hashing goes through the recording hasher (uninterpreted merkleisation on symbolic
// data), so the released signature must equal, as a term, the stub account's
// signature over the signing root built independently here from the request fields.
package hc08

import (
	"context"
	"fmt"

	"github.com/attestantio/dirk/core"
	"github.com/attestantio/dirk/rules"
	hc "github.com/attestantio/dirk/zzverif/hcommon"
	"github.com/attestantio/dirk/zzverif/stubs"
	"github.com/attestantio/dirk/zzverif/vsym"
	spec "github.com/attestantio/go-eth2-client/spec/phase0"
)

const max63 = uint64(1) << 63

var procs = []int{1, 2, 3, 8}

type attFields struct {
	slot, cidx, s, t uint64
	bbr, sr, tr, dom []byte
}

func symAtt(tag string) (*attFields, *rules.SignBeaconAttestationData) {
	f := &attFields{slot: vsym.Uint64("slot" + tag), cidx: vsym.Uint64("cidx" + tag), s: vsym.Uint64("s" + tag), t: vsym.Uint64("t" + tag),
		bbr: vsym.Bytes("bbr"+tag, 32), sr: vsym.Bytes("sr"+tag, 32), tr: vsym.Bytes("tr"+tag, 32), dom: vsym.Bytes("dom"+tag, 32)}
	vsym.Assume(vsym.And(f.dom[0] == 1, f.dom[1] == 0, f.dom[2] == 0, f.dom[3] == 0, f.s < f.t, f.t < max63))
	cp := func(b []byte) []byte { return append([]byte(nil), b...) }
	return f, &rules.SignBeaconAttestationData{Domain: cp(f.dom), Slot: f.slot, CommitteeIndex: f.cidx, BeaconBlockRoot: cp(f.bbr),
		Source: &rules.Checkpoint{Epoch: f.s, Root: cp(f.sr)}, Target: &rules.Checkpoint{Epoch: f.t, Root: cp(f.tr)}}
}

// signingRoot builds SigningData{objectRoot, domain}.HashTreeRoot with the consensus spec types.
func signingRoot(objectRoot [32]byte, domain []byte) [32]byte {
	sd := &spec.SigningData{ObjectRoot: objectRoot}
	copy(sd.Domain[:], domain)
	r, err := sd.HashTreeRoot()
	hc.Must(err)
	return r
}

func (f *attFields) expected() [32]byte {
	a := &spec.AttestationData{Slot: spec.Slot(f.slot), Index: spec.CommitteeIndex(f.cidx),
		Source: &spec.Checkpoint{Epoch: spec.Epoch(f.s)}, Target: &spec.Checkpoint{Epoch: spec.Epoch(f.t)}}
	copy(a.BeaconBlockRoot[:], f.bbr)
	copy(a.Source.Root[:], f.sr)
	copy(a.Target.Root[:], f.tr)
	r, err := a.HashTreeRoot()
	hc.Must(err)
	return signingRoot(r, f.dom)
}

func checkSig(id string, sig []byte, key [48]byte, root [32]byte) {
	vsym.Assert(id+"-length", len(sig) == 96)
	if len(sig) != 96 {
		return
	}
	vsym.Assert(id+"-by-the-addressed-account", vsym.BytesEq(sig[0:32], key[0:32]))
	vsym.Assert(id+"-over-the-requested-signing-root", vsym.BytesEq(sig[32:64], root[:]))
}

func AttestSingle() {
	ctx := context.Background()
	in := hc.Start(ctx, vsym.TempDir("A"), &stubs.Log{}, nil)
	f, data := symAtt("")
	name, pk := "W/b", []byte(nil)
	if vsym.Choose("bykey", 2) == 1 {
		name, pk = "", hc.KeyB[:]
	}
	res, sig := in.Signer.SignBeaconAttestation(ctx, hc.Creds(), name, pk, data)
	vsym.Out("res", int(res))
	vsym.Assert("A0-well-formed-request-signed", res == core.ResultSucceeded)
	if res == core.ResultSucceeded {
		vsym.Reach("signed")
		checkSig("A1-signature", sig, hc.KeyB, f.expected())
	}
}

func attestBatch(n int, orders bool) {
	ctx := context.Background()
	if orders {
		// the workers of a batch may start and finish in any order
		vsym.SetGOMAXPROCS(2)
		vsym.DeferGoroutines(true)
		vsym.ForkGoroutineOrder(true)
	} else {
		vsym.SetGOMAXPROCS(procs[vsym.Choose("gomaxprocs", len(procs))])
	}
	in := hc.Start(ctx, vsym.TempDir("A"), &stubs.Log{}, nil)
	// the batch names the accounts in an order different from the wallet's
	order := []int{2, 0, 1}[:n]
	names := make([]string, n)
	pks := make([][]byte, n)
	var fs []*attFields
	var data []*rules.SignBeaconAttestationData
	for k := 0; k < n; k++ {
		f, d := symAtt(fmt.Sprintf("%d", k))
		fs = append(fs, f)
		data = append(data, d)
		if k == 1 {
			pks[k] = hc.Keys[order[k]][:]
		} else {
			names[k] = "W/" + []string{"a", "b", "c"}[order[k]]
		}
	}
	res, sigs := in.Signer.SignBeaconAttestations(ctx, hc.Creds(), names, pks, data)
	vsym.Assert("B0-one-entry-per-request", vsym.And(len(res) == n, len(sigs) == n))
	if len(res) != n || len(sigs) != n {
		return
	}
	for k := 0; k < n; k++ {
		vsym.Out(fmt.Sprintf("res%d", k), int(res[k]))
		vsym.Assert(fmt.Sprintf("B1-well-formed-request-signed[%d]", k), res[k] == core.ResultSucceeded)
		if res[k] == core.ResultSucceeded {
			vsym.Reach("batch-entry-signed")
			checkSig(fmt.Sprintf("B2-signature[%d]", k), sigs[k], hc.Keys[order[k]], fs[k].expected())
		}
	}
}

func AttestBatch2() { attestBatch(2, false) }
func AttestBatch3() { attestBatch(3, false) }

// AttestBatch2Orders, GenericMulti2Orders: two workers that start and finish in every order.
func AttestBatch2Orders()  { attestBatch(2, true) }
func GenericMulti2Orders() { generic(2, true, true) }

func ProposeSingle() {
	ctx := context.Background()
	in := hc.Start(ctx, vsym.TempDir("A"), &stubs.Log{}, nil)
	slot, pidx := vsym.Uint64("slot"), vsym.Uint64("pidx")
	pr, st, br, dom := vsym.Bytes("pr", 32), vsym.Bytes("st", 32), vsym.Bytes("br", 32), vsym.Bytes("dom", 32)
	vsym.Assume(vsym.And(dom[0] == 0, dom[1] == 0, dom[2] == 0, dom[3] == 0, slot < max63))
	cp := func(b []byte) []byte { return append([]byte(nil), b...) }
	res, sig := in.Signer.SignBeaconProposal(ctx, hc.Creds(), "W/c", nil, &rules.SignBeaconProposalData{Domain: cp(dom), Slot: slot, ProposerIndex: pidx,
		ParentRoot: cp(pr), StateRoot: cp(st), BodyRoot: cp(br)})
	vsym.Out("res", int(res))
	vsym.Assert("P0-well-formed-request-signed", res == core.ResultSucceeded)
	if res == core.ResultSucceeded {
		vsym.Reach("signed")
		h := &spec.BeaconBlockHeader{Slot: spec.Slot(slot), ProposerIndex: spec.ValidatorIndex(pidx)}
		copy(h.ParentRoot[:], pr)
		copy(h.StateRoot[:], st)
		copy(h.BodyRoot[:], br)
		r, err := h.HashTreeRoot()
		hc.Must(err)
		checkSig("P1-signature", sig, hc.KeyC, signingRoot(r, dom))
	}
}

func generic(n int, multi bool, orders bool) {
	ctx := context.Background()
	if orders {
		// the workers of a batch may start and finish in any order
		vsym.SetGOMAXPROCS(2)
		vsym.DeferGoroutines(true)
		vsym.ForkGoroutineOrder(true)
	} else {
		vsym.SetGOMAXPROCS(procs[vsym.Choose("gomaxprocs", len(procs))])
	}
	in := hc.Start(ctx, vsym.TempDir("A"), &stubs.Log{}, nil)
	order := []int{1, 2, 0}[:n]
	names := make([]string, n)
	var roots, doms [][]byte
	var data []*rules.SignData
	for k := 0; k < n; k++ {
		tag := fmt.Sprintf("%d", k)
		r, d := vsym.Bytes("root"+tag, 32), vsym.Bytes("dom"+tag, 32)
		// a domain type the generic endpoint may sign (C05 decides which those are)
		vsym.Assume(vsym.And(d[0] == 7, d[1] == 0, d[2] == 0, d[3] == 0))
		roots, doms = append(roots, r), append(doms, d)
		data = append(data, &rules.SignData{Domain: append([]byte(nil), d...), Data: append([]byte(nil), r...)})
		names[k] = "W/" + []string{"a", "b", "c"}[order[k]]
	}
	var res []core.Result
	var sigs [][]byte
	if multi {
		res, sigs = in.Signer.Multisign(ctx, hc.Creds(), names, make([][]byte, n), data)
	} else {
		r, s := in.Signer.SignGeneric(ctx, hc.Creds(), names[0], nil, data[0])
		res, sigs = []core.Result{r}, [][]byte{s}
	}
	vsym.Assert("G0-one-entry-per-request", vsym.And(len(res) == n, len(sigs) == n))
	if len(res) != n || len(sigs) != n {
		return
	}
	for k := 0; k < n; k++ {
		vsym.Out(fmt.Sprintf("res%d", k), int(res[k]))
		vsym.Assert(fmt.Sprintf("G1-well-formed-request-signed[%d]", k), res[k] == core.ResultSucceeded)
		if res[k] == core.ResultSucceeded {
			vsym.Reach("generic-signed")
			var r32 [32]byte
			copy(r32[:], roots[k])
			checkSig(fmt.Sprintf("G2-signature[%d]", k), sigs[k], hc.Keys[order[k]], signingRoot(r32, doms[k]))
		}
	}
}

func GenericSingle() { generic(1, false, false) }
func GenericMulti2() { generic(2, true, false) }
func GenericMulti3() { generic(3, true, false) }

var oddLens = []int{4, 28, 31, 32, 33, 36}

// GenericLengths: the consensus signing root is defined for a 32-byte root and a 32-byte domain; a
// generic request with any other split of the bytes is not signed (otherwise root||domain of a
// slashable message could be presented under a different split).
func GenericLengths() {
	ctx := context.Background()
	in := hc.Start(ctx, vsym.TempDir("A"), &stubs.Log{}, nil)
	dl, rl := oddLens[vsym.Choose("domlen", len(oddLens))], oddLens[vsym.Choose("rootlen", len(oddLens))]
	dom, root := vsym.Bytes("dom", dl), vsym.Bytes("root", rl)
	var res core.Result
	var sig []byte
	if vsym.Choose("multi", 2) == 0 {
		res, sig = in.Signer.SignGeneric(ctx, hc.Creds(), "W/a", nil, &rules.SignData{Domain: dom, Data: root})
	} else {
		rs, ss := in.Signer.Multisign(ctx, hc.Creds(), []string{"W/a"}, [][]byte{nil}, []*rules.SignData{{Domain: dom, Data: root}})
		if len(rs) == 1 && len(ss) == 1 {
			res, sig = rs[0], ss[0]
		}
	}
	vsym.Out("res", int(res))
	if res == core.ResultSucceeded {
		vsym.Reach("generic-signed")
	} else {
		vsym.Reach("generic-not-signed")
	}
	vsym.Assert("L1-signed-only-for-a-32-byte-root-and-a-32-byte-domain", vsym.Implies(res == core.ResultSucceeded, dl == 32 && rl == 32))
	vsym.Assert("L2-signature-iff-succeeded", (sig != nil) == (res == core.ResultSucceeded))
}

// ProtectedLengths: the attestation and proposal endpoints sign only under a 32-byte domain.
func ProtectedLengths() {
	ctx := context.Background()
	in := hc.Start(ctx, vsym.TempDir("A"), &stubs.Log{}, nil)
	dl := oddLens[vsym.Choose("domlen", len(oddLens))]
	dom := vsym.Bytes("dom", dl)
	var res core.Result
	if vsym.Choose("endpoint", 2) == 0 {
		vsym.Assume(vsym.And(dom[0] == 1, dom[1] == 0, dom[2] == 0, dom[3] == 0))
		res, _ = in.Signer.SignBeaconAttestation(ctx, hc.Creds(), "W/a", nil, &rules.SignBeaconAttestationData{Domain: dom, BeaconBlockRoot: hc.Root,
			Source: &rules.Checkpoint{Epoch: 1, Root: hc.Root}, Target: &rules.Checkpoint{Epoch: 2, Root: hc.Root}})
	} else {
		vsym.Assume(vsym.And(dom[0] == 0, dom[1] == 0, dom[2] == 0, dom[3] == 0))
		res, _ = in.Signer.SignBeaconProposal(ctx, hc.Creds(), "W/a", nil, &rules.SignBeaconProposalData{Domain: dom, Slot: 3, ParentRoot: hc.Root, StateRoot: hc.Root, BodyRoot: hc.Root})
	}
	if res == core.ResultSucceeded {
		vsym.Reach("protected-signed")
	} else {
		vsym.Reach("protected-not-signed")
	}
	vsym.Assert("L3-protected-endpoints-sign-only-under-a-32-byte-domain", vsym.Implies(res == core.ResultSucceeded, dl == 32))
}

// AttestBatchMixed: a batch in which one entry must be refused (its key has already attested a
// higher target) and the other signed, with the keys in descending order: entry k of the answer is
// the verdict and the signature for request k (a verdict must not travel to another entry).
func AttestBatchMixed() {
	ctx := context.Background()
	vsym.SetGOMAXPROCS(procs[vsym.Choose("gomaxprocs", len(procs))])
	in := hc.Start(ctx, vsym.TempDir("A"), &stubs.Log{}, nil)
	order := []int{2, 0} // KeyC then KeyA: not in ascending key order
	refused := vsym.Choose("refused-entry", 2)
	var fs []*attFields
	var data []*rules.SignBeaconAttestationData
	for k := 0; k < 2; k++ {
		f, d := symAtt(fmt.Sprintf("%d", k))
		fs, data = append(fs, f), append(data, d)
	}
	// the refused entry's key has a record with a target above the requested one
	vsym.Assume(fs[refused].t < max63-1)
	hc.Must(in.Rules.ImportSlashingProtection(ctx, map[[48]byte]*rules.SlashingProtection{
		hc.Keys[order[refused]]: {PubKey: hc.Keys[order[refused]][:], HighestProposedSlot: -1,
			HighestAttestedSourceEpoch: int64(fs[refused].s), HighestAttestedTargetEpoch: int64(fs[refused].t) + 1}}))
	names := []string{"W/c", "W/a"}
	res, sigs := in.Signer.SignBeaconAttestations(ctx, hc.Creds(), names, [][]byte{nil, nil}, data)
	vsym.Assert("B0-one-entry-per-request", vsym.And(len(res) == 2, len(sigs) == 2))
	if len(res) != 2 || len(sigs) != 2 {
		return
	}
	for k := 0; k < 2; k++ {
		if k == refused {
			vsym.Assert(fmt.Sprintf("B3-refused-request-unsigned[%d]", k), res[k] != core.ResultSucceeded && sigs[k] == nil)
			continue
		}
		vsym.Assert(fmt.Sprintf("B1-well-formed-request-signed[%d]", k), res[k] == core.ResultSucceeded)
		if res[k] == core.ResultSucceeded {
			vsym.Reach("mixed-batch-entry-signed")
			checkSig(fmt.Sprintf("B2-signature[%d]", k), sigs[k], hc.Keys[order[k]], fs[k].expected())
		}
	}
}
