package hc08

// The same content assertions one layer further out: requests enter through the real gRPC signer
// handlers (services/api/grpc/handlers/signer), which translate the wire messages into service calls.
// A handler that drops, swaps or defaults a field, or reports a state that is not the service's
// verdict, shows up here as a signature over something other than the request.

import (
	"context"
	"fmt"

	signerhandler "github.com/attestantio/dirk/services/api/grpc/handlers/signer"
	"github.com/attestantio/dirk/services/api/grpc/interceptors"
	hc "github.com/attestantio/dirk/zzverif/hcommon"
	"github.com/attestantio/dirk/zzverif/stubs"
	"github.com/attestantio/dirk/zzverif/vsym"
	spec "github.com/attestantio/go-eth2-client/spec/phase0"
	pb "github.com/wealdtech/eth2-signer-api/pb/v1"
)

func startHandler() (context.Context, *signerhandler.Handler, *stubs.Log) {
	bg := context.Background()
	log := &stubs.Log{}
	in := hc.Start(bg, vsym.TempDir("A"), log, nil)
	h, err := signerhandler.New(bg, signerhandler.WithSigner(in.Signer))
	hc.Must(err)
	// what the interceptors leave in the context of an authenticated request
	ctx := context.WithValue(bg, &interceptors.ClientName{}, "c")
	ctx = context.WithValue(ctx, &interceptors.RequestID{}, "r")
	ctx = context.WithValue(ctx, &interceptors.ExternalIP{}, "10.0.0.9")
	return ctx, h, log
}

func cp(b []byte) []byte { return append([]byte(nil), b...) }

func pbAtt(f *attFields) *pb.AttestationData {
	return &pb.AttestationData{Slot: f.slot, CommitteeIndex: f.cidx, BeaconBlockRoot: cp(f.bbr),
		Source: &pb.Checkpoint{Epoch: f.s, Root: cp(f.sr)}, Target: &pb.Checkpoint{Epoch: f.t, Root: cp(f.tr)}}
}

// HandlerAttest: SignBeaconAttestation through the handler, addressed by name or by key.
func HandlerAttest() {
	ctx, h, _ := startHandler()
	f, _ := symAtt("")
	req := &pb.SignBeaconAttestationRequest{Domain: cp(f.dom), Data: pbAtt(f)}
	if vsym.Choose("bykey", 2) == 1 {
		req.Id = &pb.SignBeaconAttestationRequest_PublicKey{PublicKey: cp(hc.KeyB[:])}
	} else {
		req.Id = &pb.SignBeaconAttestationRequest_Account{Account: "W/b"}
	}
	res, err := h.SignBeaconAttestation(ctx, req)
	vsym.Assert("H0-handler-answers", err == nil && res != nil)
	if err != nil || res == nil {
		return
	}
	vsym.Out("state", int(res.GetState()))
	vsym.Assert("H1-well-formed-request-succeeds", res.GetState() == pb.ResponseState_SUCCEEDED)
	vsym.Assert("H2-signature-iff-succeeded", (len(res.GetSignature()) != 0) == (res.GetState() == pb.ResponseState_SUCCEEDED))
	if res.GetState() == pb.ResponseState_SUCCEEDED {
		vsym.Reach("signed-through-handler")
		checkSig("H3-signature", res.GetSignature(), hc.KeyB, f.expected())
	}
}

// HandlerAttestations: a batch of two through the handler; entry k answers request k.
func HandlerAttestations() {
	ctx, h, _ := startHandler()
	order := []int{2, 0}
	var fs []*attFields
	var reqs []*pb.SignBeaconAttestationRequest
	for k := 0; k < 2; k++ {
		f, _ := symAtt(fmt.Sprintf("%d", k))
		fs = append(fs, f)
		r := &pb.SignBeaconAttestationRequest{Domain: cp(f.dom), Data: pbAtt(f)}
		if k == 1 {
			r.Id = &pb.SignBeaconAttestationRequest_PublicKey{PublicKey: cp(hc.Keys[order[k]][:])}
		} else {
			r.Id = &pb.SignBeaconAttestationRequest_Account{Account: "W/" + []string{"a", "b", "c"}[order[k]]}
		}
		reqs = append(reqs, r)
	}
	res, err := h.SignBeaconAttestations(ctx, &pb.SignBeaconAttestationsRequest{Requests: reqs})
	vsym.Assert("H0-handler-answers", err == nil && res != nil)
	if err != nil || res == nil {
		return
	}
	vsym.Assert("H4-one-response-per-request", len(res.GetResponses()) == 2)
	if len(res.GetResponses()) != 2 {
		return
	}
	for k, r := range res.GetResponses() {
		vsym.Out(fmt.Sprintf("state%d", k), int(r.GetState()))
		vsym.Assert(fmt.Sprintf("H1-well-formed-request-succeeds[%d]", k), r.GetState() == pb.ResponseState_SUCCEEDED)
		if r.GetState() == pb.ResponseState_SUCCEEDED {
			vsym.Reach("batch-entry-signed-through-handler")
			checkSig(fmt.Sprintf("H3-signature[%d]", k), r.GetSignature(), hc.Keys[order[k]], fs[k].expected())
		}
	}
}

// HandlerPropose: SignBeaconProposal through the handler.
func HandlerPropose() {
	ctx, h, _ := startHandler()
	slot, pidx := vsym.Uint64("slot"), vsym.Uint64("pidx")
	pr, st, br, dom := vsym.Bytes("pr", 32), vsym.Bytes("st", 32), vsym.Bytes("br", 32), vsym.Bytes("dom", 32)
	vsym.Assume(vsym.And(dom[0] == 0, dom[1] == 0, dom[2] == 0, dom[3] == 0, slot < max63))
	req := &pb.SignBeaconProposalRequest{Id: &pb.SignBeaconProposalRequest_Account{Account: "W/c"}, Domain: cp(dom),
		Data: &pb.BeaconBlockHeader{Slot: slot, ProposerIndex: pidx, ParentRoot: cp(pr), StateRoot: cp(st), BodyRoot: cp(br)}}
	res, err := h.SignBeaconProposal(ctx, req)
	vsym.Assert("H0-handler-answers", err == nil && res != nil)
	if err != nil || res == nil {
		return
	}
	vsym.Out("state", int(res.GetState()))
	vsym.Assert("H1-well-formed-request-succeeds", res.GetState() == pb.ResponseState_SUCCEEDED)
	if res.GetState() == pb.ResponseState_SUCCEEDED {
		vsym.Reach("proposal-signed-through-handler")
		hd := &spec.BeaconBlockHeader{Slot: spec.Slot(slot), ProposerIndex: spec.ValidatorIndex(pidx)}
		copy(hd.ParentRoot[:], pr)
		copy(hd.StateRoot[:], st)
		copy(hd.BodyRoot[:], br)
		r, herr := hd.HashTreeRoot()
		hc.Must(herr)
		checkSig("H3-signature", res.GetSignature(), hc.KeyC, signingRoot(r, dom))
	}
}

// HandlerGeneric: Sign and Multisign through the handler.
func HandlerGeneric() {
	ctx, h, _ := startHandler()
	n := 1 + vsym.Choose("multi", 2)
	order := []int{1, 2}
	var roots, doms [][]byte
	var reqs []*pb.SignRequest
	for k := 0; k < n; k++ {
		tag := fmt.Sprintf("%d", k)
		r, d := vsym.Bytes("root"+tag, 32), vsym.Bytes("dom"+tag, 32)
		vsym.Assume(vsym.And(d[0] == 7, d[1] == 0, d[2] == 0, d[3] == 0))
		roots, doms = append(roots, r), append(doms, d)
		reqs = append(reqs, &pb.SignRequest{Id: &pb.SignRequest_Account{Account: "W/" + []string{"a", "b", "c"}[order[k]]}, Data: cp(r), Domain: cp(d)})
	}
	var out []*pb.SignResponse
	if n == 1 {
		res, err := h.Sign(ctx, reqs[0])
		vsym.Assert("H0-handler-answers", err == nil && res != nil)
		if err != nil || res == nil {
			return
		}
		out = []*pb.SignResponse{res}
	} else {
		res, err := h.Multisign(ctx, &pb.MultisignRequest{Requests: reqs})
		vsym.Assert("H0-handler-answers", err == nil && res != nil)
		if err != nil || res == nil {
			return
		}
		out = res.GetResponses()
	}
	vsym.Assert("H4-one-response-per-request", len(out) == n)
	if len(out) != n {
		return
	}
	for k, r := range out {
		vsym.Assert(fmt.Sprintf("H1-well-formed-request-succeeds[%d]", k), r.GetState() == pb.ResponseState_SUCCEEDED)
		if r.GetState() == pb.ResponseState_SUCCEEDED {
			vsym.Reach("generic-signed-through-handler")
			var root [32]byte
			copy(root[:], roots[k])
			checkSig(fmt.Sprintf("H3-signature[%d]", k), r.GetSignature(), hc.Keys[order[k]], signingRoot(root, doms[k]))
		}
	}
}
