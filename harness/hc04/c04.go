// Package hc04: harnesses for C04 (concurrent requests behave as if processed one at a time)
// and C15 (concurrent batches with overlapping keys always complete).  The requests run as
// harness threads over the real runner, the real locker and the real rules; the scheduler
// explores every interleaving of the visible operations (mutex and sync.Map operations of
// the locker, store operations) within a pre-emption bound; data stay symbolic.
package hc04

import (
	"context"
	"fmt"
	mockrules "github.com/attestantio/dirk/rules/mock"

	"github.com/attestantio/dirk/rules"
	standardrules "github.com/attestantio/dirk/rules/standard"
	"github.com/attestantio/dirk/services/ruler"
	hc "github.com/attestantio/dirk/zzverif/hcommon"
	"github.com/attestantio/dirk/zzverif/vsym"
)

const max63 = uint64(1) << 63

func attDomain() []byte { d := make([]byte, 32); d[0] = 1; return d }

type req struct {
	keys   []int // indices into hc.Keys, in request order
	s, t   []uint64
	action string
	slot   uint64
}

// attReq builds a well-formed attestation request over the given keys with symbolic epochs.
func attReq(tag string, keys []int) *req {
	r := &req{keys: keys, action: ruler.ActionSignBeaconAttestation}
	for k := range keys {
		s, t := vsym.Uint64(fmt.Sprintf("s%s_%d", tag, k)), vsym.Uint64(fmt.Sprintf("t%s_%d", tag, k))
		// well-formed requests only: a request refused for its own shape does not depend on shared state
		vsym.Assume(vsym.And(s < t, t < max63))
		r.s, r.t = append(r.s, s), append(r.t, t)
	}
	return r
}

func propReq(tag string, key int) *req {
	slot := vsym.Uint64("slot" + tag)
	vsym.Assume(slot < max63)
	return &req{keys: []int{key}, action: ruler.ActionSignBeaconProposal, slot: slot}
}

func (r *req) data() []*ruler.RulesData {
	var out []*ruler.RulesData
	for k, ki := range r.keys {
		d := &ruler.RulesData{WalletName: "W", AccountName: fmt.Sprintf("a%d", ki), PubKey: hc.Keys[ki][:]}
		if r.action == ruler.ActionSignBeaconProposal {
			d.Data = &rules.SignBeaconProposalData{Domain: make([]byte, 32), Slot: r.slot, ParentRoot: hc.Root, StateRoot: hc.Root, BodyRoot: hc.Root}
		} else {
			d.Data = &rules.SignBeaconAttestationData{Domain: attDomain(), BeaconBlockRoot: hc.Root,
				Source: &rules.Checkpoint{Epoch: r.s[k], Root: hc.Root}, Target: &rules.Checkpoint{Epoch: r.t[k], Root: hc.Root}}
		}
		out = append(out, d)
	}
	return out
}

type world struct {
	dir   string
	rules *standardrules.Service
	ruler ruler.Service
}

type prestate struct{ S, T, P []int64 }

// newWorld opens rules+runner+locker on a fresh directory holding the given records.
func newWorld(ctx context.Context, name string, pre *prestate) *world {
	w := &world{dir: vsym.TempDir(name)}
	w.rules = hc.NewRules(ctx, w.dir)
	for k := range pre.S {
		if pre.S[k] == -1 && pre.P[k] == -1 {
			continue
		}
		hc.Must(w.rules.ImportSlashingProtection(ctx, map[[48]byte]*rules.SlashingProtection{
			hc.Keys[k]: {PubKey: hc.Keys[k][:], HighestProposedSlot: pre.P[k], HighestAttestedSourceEpoch: pre.S[k], HighestAttestedTargetEpoch: pre.T[k]}}))
	}
	w.ruler = hc.NewRuler(ctx, w.rules)
	return w
}

// symbolicPre: empty store, or arbitrary well-formed records for the keys in use.
func symbolicPre(nkeys int, symbolic bool) *prestate {
	p := &prestate{}
	for k := 0; k < 3; k++ {
		S, T, P := int64(-1), int64(-1), int64(-1)
		if symbolic && k < nkeys {
			S, T, P = vsym.Int64(fmt.Sprintf("S%d", k)), vsym.Int64(fmt.Sprintf("T%d", k)), vsym.Int64(fmt.Sprintf("P%d", k))
			vsym.Assume(vsym.And(S >= 0, T >= 0, P >= 0))
		}
		p.S, p.T, p.P = append(p.S, S), append(p.T, T), append(p.P, P)
	}
	return p
}

func verdictsEqual(a, b []rules.Result) bool {
	if len(a) != len(b) {
		return false
	}
	for k := range a {
		if a[k] != b[k] {
			return false
		}
	}
	return true
}

// sameState: the exported records of the keys agree (symbolic comparison).
func sameState(ctx context.Context, a, b *world, nkeys int) bool {
	exA, err := a.rules.ExportSlashingProtection(ctx)
	hc.Must(err)
	exB, err := b.rules.ExportSlashingProtection(ctx)
	hc.Must(err)
	eq := true
	for k := 0; k < nkeys; k++ {
		SA, TA, PA := hc.Exported(exA, hc.Keys[k])
		SB, TB, PB := hc.Exported(exB, hc.Keys[k])
		eq = vsym.And(eq, SA == SB, TA == TB, PA == PB)
	}
	return eq
}

// concurrent runs the requests as concurrent tasks under schedule exploration and compares the
// outcome with every sequential order of the same real code from the same state.
func concurrent(pb int, nkeys int, symbolicState bool, warm bool, reqs ...*req) {
	vsym.ForbidCrash() // a deadlock or a panic in any goroutine is a violation (C15)
	ctx := context.Background()
	pre := symbolicPre(nkeys, symbolicState)
	w := newWorld(ctx, "conc", pre)
	if warm {
		// warm lock table: the per-key mutexes already exist
		for k := 0; k < nkeys; k++ {
			w.ruler.RunRules(ctx, hc.Creds(), ruler.ActionAccessAccount, []*ruler.RulesData{{WalletName: "W", AccountName: "a", PubKey: hc.Keys[k][:], Data: &rules.AccessAccountData{}}})
		}
	}
	got := make([][]rules.Result, len(reqs))
	vsym.Explore(pb)
	for k := range reqs {
		k := k
		vsym.Spawn(func() { got[k] = w.ruler.RunRules(ctx, hc.Creds(), reqs[k].action, reqs[k].data()) })
	}
	vsym.Join()
	vsym.Sequential()
	vsym.Reach("all-requests-completed")
	for k := range got {
		vsym.Assert("L0-one-verdict-per-entry", len(got[k]) == len(reqs[k].keys))
	}
	// the same real code, one request at a time, in every order
	orders := permutations(len(reqs))
	linearizable := false
	for oi, ord := range orders {
		sw := newWorld(ctx, fmt.Sprintf("seq%d", oi), pre)
		seq := make([][]rules.Result, len(reqs))
		for _, k := range ord {
			seq[k] = sw.ruler.RunRules(ctx, hc.Creds(), reqs[k].action, reqs[k].data())
		}
		same := true
		for k := range reqs {
			same = same && verdictsEqual(got[k], seq[k])
		}
		if same {
			linearizable = vsym.Or(linearizable, sameState(ctx, w, sw, nkeys))
		}
	}
	vsym.Assert("L1-outcome-equals-some-sequential-order", linearizable)
	// what was approved is remembered by the running instance (not only by the store): a conflicting
	// re-submission of every approved attestation, one at a time, is refused
	for k, r := range reqs {
		if r.action != ruler.ActionSignBeaconAttestation {
			continue
		}
		for j, ki := range r.keys {
			if j >= len(got[k]) || got[k][j] != rules.APPROVED {
				continue
			}
			again := []*ruler.RulesData{{WalletName: "W", AccountName: fmt.Sprintf("a%d", ki), PubKey: hc.Keys[ki][:],
				Data: &rules.SignBeaconAttestationData{Domain: attDomain(), BeaconBlockRoot: hc.MkRoot(0x77),
					Source: &rules.Checkpoint{Epoch: r.s[j], Root: hc.Root}, Target: &rules.Checkpoint{Epoch: r.t[j], Root: hc.Root}}}}
			res := w.ruler.RunRules(ctx, hc.Creds(), ruler.ActionSignBeaconAttestation, again)
			vsym.Assert("L2-approved-attestation-is-remembered", len(res) == 1 && res[0] != rules.APPROVED)
		}
	}
}

// SinglesOnDifferentKeys: two requests that share no key, and the memory of both afterwards.
func SinglesOnDifferentKeys() {
	concurrent(2, 2, false, false, attReq("a", []int{0}), attReq("b", []int{1}))
}

func permutations(n int) [][]int {
	if n == 1 {
		return [][]int{{0}}
	}
	var out [][]int
	for _, p := range permutations(n - 1) {
		for pos := 0; pos <= len(p); pos++ {
			q := append(append(append([]int{}, p[:pos]...), n-1), p[pos:]...)
			out = append(out, q)
		}
	}
	return out
}

// ---- scenarios ----

func SingleSingleSameKey() {
	concurrent(2, 1, false, false, attReq("a", []int{0}), attReq("b", []int{0}))
}
func SingleSingleSameKeyWarm() {
	concurrent(2, 1, true, true, attReq("a", []int{0}), attReq("b", []int{0}))
}
func BatchSingleSharedKey() {
	concurrent(2, 2, false, false, attReq("a", []int{0, 1}), attReq("b", []int{1}))
}
func BatchBatchCrossing() {
	concurrent(1, 2, false, false, attReq("a", []int{0, 1}), attReq("b", []int{1, 0}))
}
func BatchBatchCrossingPb2() {
	concurrent(2, 2, false, false, attReq("a", []int{0, 1}), attReq("b", []int{1, 0}))
}
func ProposalProposalSameKey() { concurrent(2, 1, true, false, propReq("a", 0), propReq("b", 0)) }
func AttestationAndProposal()  { concurrent(2, 1, false, false, attReq("a", []int{0}), propReq("b", 0)) }
func ThreeSinglesSameKey() {
	concurrent(1, 1, false, false, attReq("a", []int{0}), attReq("b", []int{0}), attReq("c", []int{0}))
}
func ThreeBatchesRing() {
	concurrent(1, 3, false, true, attReq("a", []int{0, 1}), attReq("b", []int{1, 2}), attReq("c", []int{2, 0}))
}

// ---- C15: completion (no deadlock) with concrete, distinct duties: the paths are the schedules ----

func concreteAtt(keys []int, base uint64) *req {
	r := &req{keys: keys, action: ruler.ActionSignBeaconAttestation}
	for k := range keys {
		r.s, r.t = append(r.s, base+uint64(k)), append(r.t, base+100+uint64(k))
	}
	return r
}

// completes: all requests run to completion under every schedule within the pre-emption bound.
func completes(pb int, warm bool, reqs ...*req) {
	vsym.ForbidCrash()
	ctx := context.Background()
	w := newWorld(ctx, "conc", symbolicPre(0, false))
	if warm {
		for k := 0; k < 3; k++ {
			w.ruler.RunRules(ctx, hc.Creds(), ruler.ActionAccessAccount, []*ruler.RulesData{{WalletName: "W", AccountName: "a", PubKey: hc.Keys[k][:], Data: &rules.AccessAccountData{}}})
		}
	}
	got := make([][]rules.Result, len(reqs))
	vsym.Explore(pb)
	for k := range reqs {
		k := k
		vsym.Spawn(func() { got[k] = w.ruler.RunRules(ctx, hc.Creds(), reqs[k].action, reqs[k].data()) })
	}
	vsym.Join()
	vsym.Sequential()
	vsym.Reach("all-requests-completed")
	for k := range got {
		vsym.Assert("D1-every-request-answered", len(got[k]) == len(reqs[k].keys))
		for _, v := range got[k] {
			vsym.Assert("D2-definite-verdicts", v == rules.APPROVED || v == rules.DENIED)
		}
	}
	// afterwards every key can still be locked (nothing was left locked)
	after := w.ruler.RunRules(ctx, hc.Creds(), ruler.ActionSignBeaconAttestation, concreteAtt([]int{0, 1, 2}, 5000).data())
	vsym.Assert("D3-no-lock-left-behind", len(after) == 3)
}

func DeadlockCrossingPairs() {
	completes(3, false, concreteAtt([]int{0, 1}, 10), concreteAtt([]int{1, 0}, 20))
}
func DeadlockCrossingPairsWarm() {
	completes(4, true, concreteAtt([]int{0, 1}, 10), concreteAtt([]int{1, 0}, 20))
}
func DeadlockNestedTriples() {
	completes(3, true, concreteAtt([]int{0, 1, 2}, 10), concreteAtt([]int{2, 1, 0}, 20))
}
func DeadlockRingOfThree() {
	completes(2, true, concreteAtt([]int{0, 1}, 10), concreteAtt([]int{1, 2}, 20), concreteAtt([]int{2, 0}, 30))
}
func DeadlockSubsetAndSingles() {
	completes(2, false, concreteAtt([]int{0, 1, 2}, 10), concreteAtt([]int{1}, 20), concreteAtt([]int{2, 0}, 30))
}
func DeadlockFourRequests() {
	completes(1, true, concreteAtt([]int{0, 1}, 10), concreteAtt([]int{1, 0}, 20), concreteAtt([]int{2}, 30), concreteAtt([]int{2, 1}, 40))
}

// CancelledWaiter: three conflicting single requests on one key; the client of the second goes away
// (its context is cancelled before the request reaches the runner).  The abandoned request may be
// answered FAILED without effect or be processed normally; the other two must still be serialised.
func CancelledWaiter() {
	cancelled(1, attReq("a", []int{0}), attReq("b", []int{0}), attReq("c", []int{0}))
}

func cancelled(pb int, reqs ...*req) {
	vsym.ForbidCrash()
	ctx := context.Background()
	pre := symbolicPre(1, false)
	w := newWorld(ctx, "conc", pre)
	bctx, cancel := context.WithCancel(ctx)
	cancel() // the client of the second request has already gone away when it is queued
	got := make([][]rules.Result, len(reqs))
	vsym.Explore(pb)
	for k := range reqs {
		k := k
		c := ctx
		if k == 1 {
			c = bctx
		}
		vsym.Spawn(func() { got[k] = w.ruler.RunRules(c, hc.Creds(), reqs[k].action, reqs[k].data()) })
	}
	vsym.Join()
	vsym.Sequential()
	vsym.Reach("all-requests-completed")
	for k := range got {
		vsym.Assert("L0-one-verdict-per-entry", len(got[k]) == len(reqs[k].keys))
	}
	abandoned := true
	for _, r := range got[1] {
		abandoned = abandoned && r == rules.FAILED
	}
	linearizable := false
	for oi, ord := range permutations(len(reqs)) {
		for drop := 0; drop < 2; drop++ {
			if drop == 1 && !abandoned {
				continue
			}
			sw := newWorld(ctx, fmt.Sprintf("seq%d_%d", oi, drop), pre)
			seq := make([][]rules.Result, len(reqs))
			for _, k := range ord {
				if drop == 1 && k == 1 {
					seq[k] = got[k]
					continue
				}
				seq[k] = sw.ruler.RunRules(ctx, hc.Creds(), reqs[k].action, reqs[k].data())
			}
			same := true
			for k := range reqs {
				same = same && verdictsEqual(got[k], seq[k])
			}
			if same {
				linearizable = vsym.Or(linearizable, sameState(ctx, w, sw, 1))
			}
		}
	}
	vsym.Assert("L1-outcome-equals-some-sequential-order", linearizable)
}

func concreteSingle(s, t uint64) *req {
	return &req{keys: []int{0}, action: ruler.ActionSignBeaconAttestation, s: []uint64{s}, t: []uint64{t}}
}

// CancelledWaiterConcrete: concrete conflicting attestations (1->5, 3->5 abandoned, 2->5), bound 2.
func CancelledWaiterConcrete() {
	cancelled(2, concreteSingle(1, 5), concreteSingle(3, 5), concreteSingle(2, 5))
}

// CancelledWaiterFirstSymbolic: an arbitrary first request against the concrete other two.
func CancelledWaiterFirstSymbolic() {
	cancelled(1, attReq("a", []int{0}), concreteSingle(3, 5), concreteSingle(2, 5))
}
func CancelledWaiterFirstSymbolicPb2() {
	cancelled(2, attReq("a", []int{0}), concreteSingle(3, 5), concreteSingle(2, 5))
}

// BatchBetweenSingles: a batch [K1,K2] arriving while K2 is busy and K1 is free, with a rival single
// request for K1 admitted while the batch waits: the batch must not enter K1's read-check-write while
// the rival is inside it.  Conflicting targets, so overlapping evaluations show as two approvals.
func BatchBetweenSingles() {
	mk := func(keys []int, s, t uint64) *req {
		r := &req{keys: keys, action: ruler.ActionSignBeaconAttestation}
		for range keys {
			r.s, r.t = append(r.s, s), append(r.t, t)
		}
		return r
	}
	concurrent(2, 2, false, false, mk([]int{1}, 1, 5), mk([]int{0, 1}, 2, 5), mk([]int{0}, 3, 5))
}

// BatchBetweenSinglesSymbolic: the same with an arbitrary rival request.
func BatchBetweenSinglesSymbolic() {
	mk := func(keys []int, s, t uint64) *req {
		r := &req{keys: keys, action: ruler.ActionSignBeaconAttestation}
		for range keys {
			r.s, r.t = append(r.s, s), append(r.t, t)
		}
		return r
	}
	concurrent(2, 2, false, false, mk([]int{1}, 1, 5), mk([]int{0, 1}, 2, 5), attReq("c", []int{0}))
}

// DeadlockKeyValues: the keys themselves are solver variables.  A batch naming two different keys
// (the second one arbitrary in its last two bytes) followed by single requests for both: every
// request completes whatever the key values are (no two keys may end up waiting on one another
// because of their values).  The rules are a stub that approves (the store is not the subject and
// its keys must be concrete).
func DeadlockKeyValues() {
	vsym.ForbidCrash()
	ctx := context.Background()
	r := hc.NewRuler(ctx, mockrules.New())
	k1 := hc.Keys[0]
	k2 := hc.Keys[1]
	k2[46], k2[47] = vsym.Byte("k2_46"), vsym.Byte("k2_47")
	differ := false
	for i := range k1 {
		differ = vsym.Or(differ, k1[i] != k2[i])
	}
	vsym.Assume(differ)
	mk := func(keys ...[48]byte) []*ruler.RulesData {
		var out []*ruler.RulesData
		for j, k := range keys {
			out = append(out, &ruler.RulesData{WalletName: "W", AccountName: fmt.Sprintf("a%d", j), PubKey: append([]byte(nil), k[:]...),
				Data: &rules.SignBeaconAttestationData{Domain: attDomain(), BeaconBlockRoot: hc.Root,
					Source: &rules.Checkpoint{Epoch: 1, Root: hc.Root}, Target: &rules.Checkpoint{Epoch: 2, Root: hc.Root}}})
		}
		return out
	}
	res := r.RunRules(ctx, hc.Creds(), ruler.ActionSignBeaconAttestation, mk(k1, k2))
	vsym.Assert("K1-batch-answered", len(res) == 2)
	res = r.RunRules(ctx, hc.Creds(), ruler.ActionSignBeaconAttestation, mk(k2))
	vsym.Assert("K2-single-answered", len(res) == 1)
	res = r.RunRules(ctx, hc.Creds(), ruler.ActionSignBeaconAttestation, mk(k2, k1))
	vsym.Assert("K3-reversed-batch-answered", len(res) == 2)
	vsym.Reach("all-completed")
}

// DeadlockDuplicateKeyBatch: a batch that names one key twice (attestations or proposals), alone and
// next to a well-formed request for the same key: it is answered (refused), nothing is left locked.
func DeadlockDuplicateKeyBatch() {
	vsym.ForbidCrash()
	ctx := context.Background()
	w := newWorld(ctx, "conc", symbolicPre(0, false))
	dup := concreteAtt([]int{0, 0}, 10)
	if vsym.Choose("three-entries", 2) == 1 {
		dup = concreteAtt([]int{1, 0, 1}, 10)
	}
	other := concreteAtt([]int{0}, 50)
	var got [2][]rules.Result
	vsym.Explore(1)
	vsym.Spawn(func() { got[0] = w.ruler.RunRules(ctx, hc.Creds(), dup.action, dup.data()) })
	vsym.Spawn(func() { got[1] = w.ruler.RunRules(ctx, hc.Creds(), other.action, other.data()) })
	vsym.Join()
	vsym.Sequential()
	vsym.Reach("duplicate-key-batch-answered")
	vsym.Assert("D1-every-request-answered", len(got[0]) == len(dup.keys) && len(got[1]) == 1)
	for _, v := range got[0] {
		vsym.Assert("D4-duplicate-key-batch-approves-nothing", v != rules.APPROVED)
	}
	vsym.Assert("D2-definite-verdicts", len(got[1]) == 1 && got[1][0] == rules.APPROVED)
	after := w.ruler.RunRules(ctx, hc.Creds(), ruler.ActionSignBeaconAttestation, concreteAtt([]int{0, 1, 2}, 5000).data())
	vsym.Assert("D3-no-lock-left-behind", len(after) == 3)
}
