// Package hc06: harnesses for C06 (signing fails closed).  Every dependency call
// site is a fault decision (vsym.Fault in the stubs, in the badger model and in
// the hasher model); all subsets within the fault budget are explored.
package hc06

import (
	"context"
	"fmt"

	"github.com/attestantio/dirk/core"
	"github.com/attestantio/dirk/rules"
	"github.com/attestantio/dirk/services/checker"
	"github.com/attestantio/dirk/services/ruler"
	hc "github.com/attestantio/dirk/zzverif/hcommon"
	"github.com/attestantio/dirk/zzverif/stubs"
	"github.com/attestantio/dirk/zzverif/vsym"
	badger "github.com/dgraph-io/badger/v2"
)

func attDomain() []byte  { d := make([]byte, 32); d[0] = 1; return d }
func propDomain() []byte { return make([]byte, 32) }
func genDomain() []byte  { d := make([]byte, 32); d[0] = 7; return d }

func att(s, t uint64) *rules.SignBeaconAttestationData { return attD(s, t, attDomain()) }

func short(d []byte, env int) []byte {
	if env == 6 {
		return d[:31]
	}
	if env == 7 {
		f := append([]byte(nil), d...)
		f[0] = 9 // a domain type none of the endpoints under test signs
		f[1] = 9
		return f
	}
	return d
}

func attD(s, t uint64, dom []byte) *rules.SignBeaconAttestationData {
	return &rules.SignBeaconAttestationData{Domain: dom, Slot: 3, CommitteeIndex: 1, BeaconBlockRoot: hc.Root,
		Source: &rules.Checkpoint{Epoch: s, Root: hc.Root}, Target: &rules.Checkpoint{Epoch: t, Root: hc.Root}}
}

func rawPut(dir string, key, val []byte) {
	db, err := badger.Open(badger.DefaultOptions(dir).WithLogger(nil))
	hc.Must(err)
	hc.Must(db.Update(func(txn *badger.Txn) error { return txn.Set(key, val) }))
	hc.Must(db.Close())
}

func recKey(key [48]byte, action byte) []byte {
	k := make([]byte, 49)
	copy(k, key[:])
	k[48] = action
	return k
}

// environment is the non-fault adversity chosen for a run.
type environment struct {
	in  *hc.Instance
	log *stubs.Log
	dir string
}

// setup builds the instance; `env` selects an adverse but fault-free condition:
// 0 none, 1 account locked and passphrase unknown, 2 account locked and passphrase known,
// 3 undecodable stored record, 4 store closed (shutdown in progress), 5 account cannot sign,
// 6 domain of 31 bytes (the signing root cannot be computed after the rules approved),
// 7 (batches) the first entry carries a foreign domain type and is refused by the rules, so that
//   refused and approved entries are mixed when a later step fails.
func setup(ctx context.Context, env int, action byte) *environment {
	e := &environment{log: &stubs.Log{}, dir: vsym.TempDir("A")}
	if env == 3 {
		rawPut(e.dir, recKey(hc.KeyA, action), []byte{0x7e, 0x01, 0x02})
	}
	d := &hc.Deps{}
	if env == 1 {
		d.Unlocker = &stubs.Unlocker{L: e.log, Knows: false}
	}
	e.in = hc.Start(ctx, e.dir, e.log, d)
	a := e.in.Wallet.Accts[0].(*stubs.Account)
	if env == 1 || env == 2 {
		a.Unlocked = false
	}
	if env == 5 {
		e.in.Wallet.Accts[0] = &stubs.NonSignerAccount{Id: a.Id, N: a.N, Key: a.Key}
	}
	if env == 4 {
		hc.Must(e.in.Rules.Close(ctx))
	}
	return e
}

// signedFor reports whether the account signed something for key whose stub signature equals sig.
func signedFor(log *stubs.Log, key [48]byte, sig []byte) bool {
	for _, sc := range log.Signs {
		if sc.Key == key && len(sig) == 96 && string(sig[0:32]) == string(key[0:32]) && string(sig[32:64]) == string(sc.Data) {
			return true
		}
	}
	return false
}

func committedAtt(ctx context.Context, e *environment, key [48]byte, s, t uint64) bool {
	ex := hc.ReopenAndExport(ctx, e.in.Rules, e.dir)
	S, T, _ := hc.Exported(ex, key)
	return S == int64(s) && T == int64(t)
}

func committedProp(ctx context.Context, e *environment, key [48]byte, slot uint64) bool {
	ex := hc.ReopenAndExport(ctx, e.in.Rules, e.dir)
	_, _, P := hc.Exported(ex, key)
	return P == int64(slot)
}

const nEnv = 8

func single(faults int, endpoint int) {
	ctx := context.Background()
	env := vsym.Choose("env", nEnv)
	action := byte(0x02)
	if endpoint == 1 {
		action = 0x03
	}
	e := setup(ctx, env, action)
	byKey := vsym.Choose("bykey", 2) == 1
	name, pk := "W/a", []byte(nil)
	if byKey {
		name, pk = "", hc.KeyA[:]
	}
	vsym.SetGOMAXPROCS(1)
	vsym.SetFaults(faults)
	var res core.Result
	var sig []byte
	switch endpoint {
	case 0:
		res, sig = e.in.Signer.SignBeaconAttestation(ctx, hc.Creds(), name, pk, attD(5, 6, short(attDomain(), env)))
	case 1:
		res, sig = e.in.Signer.SignBeaconProposal(ctx, hc.Creds(), name, pk, &rules.SignBeaconProposalData{Domain: short(propDomain(), env), Slot: 9,
			ProposerIndex: 2, ParentRoot: hc.Root, StateRoot: hc.Root, BodyRoot: hc.Root})
	default:
		res, sig = e.in.Signer.SignGeneric(ctx, hc.Creds(), name, pk, &rules.SignData{Domain: short(genDomain(), env), Data: hc.Root})
	}
	vsym.SetFaults(0)
	vsym.Out("res", int(res))
	vsym.Assert("F1-signature-iff-succeeded", (sig != nil) == (res == core.ResultSucceeded))
	if res == core.ResultSucceeded {
		vsym.Reach("succeeded")
		// generic signing consults no slashing-protection record, so a broken or closed store does not matter to it
		vsym.Assert("F2-succeeded-only-in-a-benign-environment", env == 0 || env == 2 || (endpoint == 2 && (env == 3 || env == 4 || env == 7)))
		vsym.Assert("F3-released-signature-is-the-accounts", signedFor(e.log, hc.KeyA, sig))
		switch endpoint {
		case 0:
			vsym.Assert("F4-approval-recorded-before-release", committedAtt(ctx, e, hc.KeyA, 5, 6))
		case 1:
			vsym.Assert("F4-approval-recorded-before-release", committedProp(ctx, e, hc.KeyA, 9))
		}
	} else {
		vsym.Reach("not-succeeded")
		vsym.Assert("F5-no-signature-escapes", sig == nil)
	}
	vsym.Assert("F6-result-definite", res == core.ResultSucceeded || res == core.ResultDenied || res == core.ResultFailed)
}

func SingleAttest1()  { single(1, 0) }
func SinglePropose1() { single(1, 1) }
func SingleGeneric1() { single(1, 2) }
func SingleAttest2()  { single(2, 0) }
func SinglePropose2() { single(2, 1) }
func SingleGeneric2() { single(2, 2) }

// batch: per-position fail-closed for the two batch endpoints (n entries, entry 0 in the adverse environment).
func batch(faults int, n int, generic bool) {
	ctx := context.Background()
	env := vsym.Choose("env", nEnv)
	e := setup(ctx, env, 0x02)
	names := []string{"W/a", "W/b", "W/c"}[:n]
	vsym.SetGOMAXPROCS(1)
	vsym.SetFaults(faults)
	var res []core.Result
	var sigs [][]byte
	if generic {
		var data []*rules.SignData
		for k := 0; k < n; k++ {
			d := genDomain()
			if k == 0 {
				d = short(d, env)
			}
			data = append(data, &rules.SignData{Domain: d, Data: hc.MkRoot(byte(0x20 + k))})
		}
		res, sigs = e.in.Signer.Multisign(ctx, hc.Creds(), names, make([][]byte, n), data)
	} else {
		var data []*rules.SignBeaconAttestationData
		for k := 0; k < n; k++ {
			d := attDomain()
			if k == 0 {
				d = short(d, env)
			}
			data = append(data, attD(uint64(5+k), uint64(10+k), d))
		}
		res, sigs = e.in.Signer.SignBeaconAttestations(ctx, hc.Creds(), names, make([][]byte, n), data)
	}
	vsym.SetFaults(0)
	if len(sigs) != 0 {
		vsym.Assert("B1-one-signature-slot-per-result", len(sigs) == len(res))
	}
	nSucceeded := 0
	for k := range res {
		vsym.Out(fmt.Sprintf("res%d", k), int(res[k]))
		var sig []byte
		if k < len(sigs) {
			sig = sigs[k]
		}
		vsym.Assert(fmt.Sprintf("F1-signature-iff-succeeded[%d]", k), (sig != nil) == (res[k] == core.ResultSucceeded))
		if res[k] == core.ResultSucceeded {
			nSucceeded++
			vsym.Reach("position-succeeded")
			if k < n {
				vsym.Assert(fmt.Sprintf("F3-released-signature-is-the-accounts[%d]", k), signedFor(e.log, hc.Keys[k], sig))
				if k == 0 {
					vsym.Assert("F2-succeeded-only-in-a-benign-environment", env == 0 || env == 2 || (generic && (env == 3 || env == 4 || env == 7)))
				}
			} else {
				vsym.Assert("B2-no-success-beyond-the-request", false)
			}
		} else {
			vsym.Reach("position-not-succeeded")
		}
	}
	if !generic && nSucceeded > 0 {
		ex := hc.ReopenAndExport(ctx, e.in.Rules, e.dir)
		for k := range res {
			if res[k] == core.ResultSucceeded && k < n {
				S, T, _ := hc.Exported(ex, hc.Keys[k])
				vsym.Assert(fmt.Sprintf("F4-approval-recorded-before-release[%d]", k), vsym.And(S == int64(5+k), T == int64(10+k)))
			}
		}
	}
	vsym.Assert("B3-signings-equal-releases", len(e.log.Signs) >= nSucceeded)
}

// rulesBatch: the rules service's batch entry point called directly (as the ruler does for n > 1, and as any
// other caller of the exported rules.Service may for n = 1) under injected faults: a position is APPROVED only
// if its approval is in the store when the directory is reopened.
func rulesBatch(faults int, n int) {
	ctx := context.Background()
	e := setup(ctx, 0, 0x02)
	vsym.SetGOMAXPROCS(1)
	var md []*rules.ReqMetadata
	var data []*rules.SignBeaconAttestationData
	for k := 0; k < n; k++ {
		md = append(md, &rules.ReqMetadata{Account: []string{"a", "b", "c"}[k], PubKey: hc.Keys[k][:], Client: "c"})
		data = append(data, att(uint64(5+k), uint64(10+k)))
	}
	vsym.SetFaults(faults)
	res := e.in.Rules.OnSignBeaconAttestations(ctx, md, data)
	vsym.SetFaults(0)
	vsym.Assert("RB0-one-verdict-per-entry", len(res) == n)
	approved := 0
	for k := range res {
		vsym.Out(fmt.Sprintf("res%d", k), int(res[k]))
		if res[k] == rules.APPROVED {
			approved++
		}
	}
	if approved == 0 {
		vsym.Reach("nothing-approved")
		return
	}
	vsym.Reach("approved")
	ex := hc.ReopenAndExport(ctx, e.in.Rules, e.dir)
	for k := range res {
		if res[k] == rules.APPROVED && k < n {
			S, T, _ := hc.Exported(ex, hc.Keys[k])
			vsym.Assert(fmt.Sprintf("RB1-approval-recorded-before-the-verdict[%d]", k), vsym.And(S == int64(5+k), T == int64(10+k)))
		}
	}
}

func RulesBatch1F1() { rulesBatch(1, 1) }
func RulesBatch2F1() { rulesBatch(1, 2) }
func RulesBatch1F2() { rulesBatch(2, 1) }

func BatchAttest1F1()  { batch(1, 1, false) }
func BatchGeneric1F1() { batch(1, 1, true) }
func BatchAttest2F1()  { batch(1, 2, false) }
func BatchAttest3F1()  { batch(1, 3, false) }
func BatchAttest2F2()  { batch(2, 2, false) }
func BatchGeneric2F1() { batch(1, 2, true) }
func BatchGeneric3F1() { batch(1, 3, true) }
func BatchGeneric2F2() { batch(2, 2, true) }

// stubRuler returns a result list chosen by the explorer (malformed lists included).
type stubRuler struct {
	n    int
	last []rules.Result
}

func (r *stubRuler) RunRules(ctx context.Context, credentials *checker.Credentials, action string, data []*ruler.RulesData) []rules.Result {
	vals := []rules.Result{rules.UNKNOWN, rules.APPROVED, rules.DENIED, rules.FAILED}
	length := vsym.Choose("rlen", r.n+2) // 0 .. n+1
	out := make([]rules.Result, length)
	for k := range out {
		out[k] = vals[vsym.Choose(fmt.Sprintf("rres%d", k), len(vals))]
	}
	r.last = out
	return out
}

// MalformedRulerResults: whatever list the runner returns, a position carries a signature iff it SUCCEEDED,
// and only positions the runner APPROVED succeed.
func malformedRuler(n int, generic bool) {
	ctx := context.Background()
	log := &stubs.Log{}
	sr := &stubRuler{n: n}
	in := hc.Start(ctx, vsym.TempDir("A"), log, &hc.Deps{Ruler: sr})
	names := []string{"W/a", "W/b", "W/c"}[:n]
	var res []core.Result
	var sigs [][]byte
	panicked := false
	if n == 1 && !generic {
		panicked, _ = vsym.Try(func() {
			r, s := in.Signer.SignBeaconAttestation(ctx, hc.Creds(), "W/a", nil, att(5, 6))
			res, sigs = []core.Result{r}, [][]byte{s}
		})
	} else if generic {
		var data []*rules.SignData
		for k := 0; k < n; k++ {
			data = append(data, &rules.SignData{Domain: genDomain(), Data: hc.Root})
		}
		panicked, _ = vsym.Try(func() { res, sigs = in.Signer.Multisign(ctx, hc.Creds(), names, make([][]byte, n), data) })
	} else {
		var data []*rules.SignBeaconAttestationData
		for k := 0; k < n; k++ {
			data = append(data, att(uint64(5+k), uint64(10+k)))
		}
		panicked, _ = vsym.Try(func() { res, sigs = in.Signer.SignBeaconAttestations(ctx, hc.Creds(), names, make([][]byte, n), data) })
	}
	if panicked {
		vsym.Reach("panicked-on-malformed-list")
		return // no response at all: nothing released (observation, see evidence)
	}
	vsym.Reach("answered")
	for k := range res {
		var sig []byte
		if k < len(sigs) {
			sig = sigs[k]
		}
		vsym.Assert("R1-signature-iff-succeeded", (sig != nil) == (res[k] == core.ResultSucceeded))
		if res[k] == core.ResultSucceeded {
			vsym.Reach("succeeded-on-approved")
			vsym.Assert("R2-succeeded-only-where-the-runner-approved", k < len(sr.last) && sr.last[k] == rules.APPROVED)
		}
	}
}

func MalformedRulerSingle()   { malformedRuler(1, false) }
func MalformedRulerBatch2()   { malformedRuler(2, false) }
func MalformedRulerGeneric2() { malformedRuler(2, true) }
