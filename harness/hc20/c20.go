// Package hc20: harnesses for C20 (no client request can crash the daemon).  Requests are built
// the way the wire decoder builds them: a bytes field is nil when empty and otherwise a fresh slice
// with the capacity append([]byte(nil), v...) gives it; absent sub-messages are nil; repeated
// message elements are never nil.  Contents are symbolic, lengths come from a fixed family.
package hc20

import (
	"context"
	"fmt"

	standardaccountmanager "github.com/attestantio/dirk/services/accountmanager/standard"
	accountmanagerhandler "github.com/attestantio/dirk/services/api/grpc/handlers/accountmanager"
	listerhandler "github.com/attestantio/dirk/services/api/grpc/handlers/lister"
	signerhandler "github.com/attestantio/dirk/services/api/grpc/handlers/signer"
	walletmanagerhandler "github.com/attestantio/dirk/services/api/grpc/handlers/walletmanager"
	"github.com/attestantio/dirk/services/api/grpc/interceptors"
	"github.com/attestantio/dirk/services/checker"
	staticchecker "github.com/attestantio/dirk/services/checker/static"
	standardlister "github.com/attestantio/dirk/services/lister/standard"
	"github.com/attestantio/dirk/services/ruler"
	standardwalletmanager "github.com/attestantio/dirk/services/walletmanager/standard"
	hc "github.com/attestantio/dirk/zzverif/hcommon"
	"github.com/attestantio/dirk/zzverif/stubs"
	"github.com/attestantio/dirk/zzverif/vsym"
	"github.com/herumi/bls-eth-go-binary/bls"
	pb "github.com/wealdtech/eth2-signer-api/pb/v1"

	"github.com/attestantio/dirk/core"
)

var byteLens = []int{0, 1, 3, 4, 8, 31, 32, 33, 48, 49, 96}
var names = []string{"W/a", "", "/", "W", "W/", "/a", "W/a/b", "Nope/x", "W/nope", "w/A"}

// wire builds a bytes field as the protobuf decoder does.
func wire(name string, n int) []byte {
	if n == 0 {
		return nil
	}
	return append([]byte(nil), vsym.Bytes(name, n)...)
}

type daemon struct {
	ctx     context.Context
	signer  *signerhandler.Handler
	lister  *listerhandler.Handler
	account *accountmanagerhandler.Handler
	wallet  *walletmanagerhandler.Handler
	log     *stubs.Log
}

// start wires the real handlers over the real services; the checker is the real static checker
// with a permissive or a restrictive configuration.
func start() *daemon {
	bg := context.Background()
	d := &daemon{log: &stubs.Log{}}
	perms := map[string][]*checker.Permissions{"client1": {{Path: ".*", Operations: []string{"All"}}}}
	if vsym.Choose("restrictive", 2) == 1 {
		perms = map[string][]*checker.Permissions{"client1": {{Path: "W/a", Operations: []string{"~Sign", "Sign beacon attestation", "Access account"}}}}
	}
	ck, err := staticchecker.New(bg, staticchecker.WithPermissions(perms))
	hc.Must(err)
	in := hc.Start(bg, vsym.TempDir("A"), d.log, &hc.Deps{Checker: ck})
	d.signer, err = signerhandler.New(bg, signerhandler.WithSigner(in.Signer))
	hc.Must(err)
	fetcher := &stubs.Fetcher{Wallets: []*stubs.Wallet{in.Wallet}, L: d.log}
	ls, err := standardlister.New(bg, standardlister.WithChecker(ck), standardlister.WithFetcher(fetcher), standardlister.WithRuler(in.Ruler))
	hc.Must(err)
	d.lister, err = listerhandler.New(bg, listerhandler.WithLister(ls))
	hc.Must(err)
	am, err := standardaccountmanager.New(bg, standardaccountmanager.WithChecker(ck), standardaccountmanager.WithFetcher(fetcher),
		standardaccountmanager.WithUnlocker(&stubs.Unlocker{L: d.log, Knows: true}), standardaccountmanager.WithRuler(in.Ruler), standardaccountmanager.WithProcess(nopProcess{}))
	hc.Must(err)
	d.account, err = accountmanagerhandler.New(bg, accountmanagerhandler.WithAccountManager(am), accountmanagerhandler.WithProcess(nopProcess{}))
	hc.Must(err)
	wm, err := standardwalletmanager.New(bg, standardwalletmanager.WithChecker(ck), standardwalletmanager.WithFetcher(fetcher),
		standardwalletmanager.WithUnlocker(&stubs.Unlocker{L: d.log, Knows: true}), standardwalletmanager.WithRuler(in.Ruler))
	hc.Must(err)
	d.wallet, err = walletmanagerhandler.New(bg, walletmanagerhandler.WithWalletManager(wm), walletmanagerhandler.WithProcess(nopProcess{}))
	hc.Must(err)
	// the interceptors' job: the authenticated client name in the context
	clients := []string{"client1", "", "stranger"}
	d.ctx = context.WithValue(bg, &interceptors.ClientName{}, clients[vsym.Choose("client", len(clients))])
	return d
}

// stillAnswers: after the request under test, an ordinary request is still answered (no lock left behind).
func (d *daemon) stillAnswers() {
	ctx := context.WithValue(context.Background(), &interceptors.ClientName{}, "client1")
	dom := make([]byte, 32)
	dom[0] = 1
	res, err := d.signer.SignBeaconAttestation(ctx, &pb.SignBeaconAttestationRequest{Id: &pb.SignBeaconAttestationRequest_Account{Account: "W/a"}, Domain: dom,
		Data: &pb.AttestationData{BeaconBlockRoot: hc.Root, Source: &pb.Checkpoint{Epoch: 1 << 40, Root: hc.Root}, Target: &pb.Checkpoint{Epoch: 1<<40 + 1, Root: hc.Root}}})
	vsym.Assert("Z2-daemon-still-answers", vsym.And(err == nil, res != nil))
	vsym.Reach("second-request-answered")
}

// ---- request builders: one field deviates from the nominal request at a time, a few pairs together ----

func attData(tag string, dev int, val int) *pb.AttestationData {
	a := &pb.AttestationData{Slot: vsym.Uint64("slot" + tag), CommitteeIndex: vsym.Uint64("cidx" + tag), BeaconBlockRoot: wire("bbr"+tag, 32),
		Source: &pb.Checkpoint{Epoch: vsym.Uint64("se" + tag), Root: wire("sr"+tag, 32)},
		Target: &pb.Checkpoint{Epoch: vsym.Uint64("te" + tag), Root: wire("tr"+tag, 32)}}
	switch dev {
	case 3:
		a.BeaconBlockRoot = wire("bbr"+tag, byteLens[val%len(byteLens)])
	case 4:
		a.Source.Root = wire("sr"+tag, byteLens[val%len(byteLens)])
	case 5:
		a.Target.Root = wire("tr"+tag, byteLens[val%len(byteLens)])
	case 6:
		a.Source = nil
	case 7:
		a.Target = nil
	case 8:
		a.Source.Root, a.Target.Root, a.BeaconBlockRoot = nil, nil, nil
	}
	return a
}

func attRequest(tag string, dev int, val int) *pb.SignBeaconAttestationRequest {
	r := &pb.SignBeaconAttestationRequest{Id: &pb.SignBeaconAttestationRequest_Account{Account: "W/a"}, Domain: wire("dom"+tag, 32)}
	r.Data = attData(tag, dev, val)
	switch dev {
	case 0:
		r.Id = &pb.SignBeaconAttestationRequest_Account{Account: names[val%len(names)]}
	case 1:
		r.Id = &pb.SignBeaconAttestationRequest_PublicKey{PublicKey: wire("pk"+tag, byteLens[val%len(byteLens)])}
		if val%len(byteLens) == 8 { // a known key
			r.Id = &pb.SignBeaconAttestationRequest_PublicKey{PublicKey: append([]byte(nil), hc.KeyB[:]...)}
		}
	case 2:
		r.Domain = wire("dom"+tag, byteLens[val%len(byteLens)])
	case 9:
		r.Data = nil
	case 10:
		r.Id = nil
	}
	return r
}

// nominalAtt is a concrete well-formed request (for the batch entries that are not the subject).
func nominalAtt(k uint64) *pb.SignBeaconAttestationRequest {
	dom := make([]byte, 32)
	dom[0] = 1
	return &pb.SignBeaconAttestationRequest{Id: &pb.SignBeaconAttestationRequest_Account{Account: "W/a"}, Domain: dom,
		Data: &pb.AttestationData{Slot: 9, CommitteeIndex: k, BeaconBlockRoot: append([]byte(nil), hc.Root...),
			Source: &pb.Checkpoint{Epoch: 10 + k, Root: append([]byte(nil), hc.Root...)}, Target: &pb.Checkpoint{Epoch: 20 + k, Root: append([]byte(nil), hc.Root...)}}}
}

func nominalSign(k byte) *pb.SignRequest {
	dom := make([]byte, 32)
	dom[0] = 7
	return &pb.SignRequest{Id: &pb.SignRequest_Account{Account: "W/a"}, Domain: dom, Data: hc.MkRoot(0x30 + k)}
}

const attDevs = 11

func devVals(dev int) int {
	switch dev {
	case 0:
		return len(names)
	case 1, 2, 3, 4, 5:
		return len(byteLens)
	}
	return 1
}

func SignBeaconAttestation() {
	vsym.ForbidCrash()
	d := start()
	dev := vsym.Choose("dev", attDevs)
	val := vsym.Choose("val", devVals(dev))
	res, err := d.signer.SignBeaconAttestation(d.ctx, attRequest("", dev, val))
	vsym.Reach("answered")
	vsym.Assert("Z1-response-or-error", res != nil || err != nil)
	d.stillAnswers()
}

// SignBeaconAttestationPairs: domain length x beacon block root length together.
func SignBeaconAttestationPairs() {
	vsym.ForbidCrash()
	d := start()
	r := attRequest("", -1, 0)
	r.Domain = wire("dom", byteLens[vsym.Choose("domlen", len(byteLens))])
	r.Data.BeaconBlockRoot = wire("bbr", byteLens[vsym.Choose("bbrlen", len(byteLens))])
	res, err := d.signer.SignBeaconAttestation(d.ctx, r)
	vsym.Reach("answered")
	vsym.Assert("Z1-response-or-error", res != nil || err != nil)
	d.stillAnswers()
}

func SignBeaconAttestations() {
	vsym.ForbidCrash()
	vsym.SetGOMAXPROCS([]int{1, 2, 4}[vsym.Choose("gomaxprocs", 3)])
	d := start()
	n := vsym.Choose("n", 4) // 0..3 entries
	req := &pb.SignBeaconAttestationsRequest{}
	which := 0
	dev, val := -1, 0
	if n > 0 {
		which = vsym.Choose("which", n)
		dev = vsym.Choose("dev", attDevs+1) // attDevs = repeat the first entry's account
		if dev < attDevs {
			val = vsym.Choose("val", devVals(dev))
		}
	}
	accts := []string{"W/a", "W/b", "W/c"}
	for k := 0; k < n; k++ {
		tag := fmt.Sprintf("%d", k)
		var r *pb.SignBeaconAttestationRequest
		if k == which && dev < attDevs {
			r = attRequest(tag, dev, val)
		} else {
			r = nominalAtt(uint64(k))
			r.Id = &pb.SignBeaconAttestationRequest_Account{Account: accts[k]}
			if k == which && dev == attDevs {
				r.Id = &pb.SignBeaconAttestationRequest_Account{Account: accts[0]}
			}
		}
		req.Requests = append(req.Requests, r)
	}
	res, err := d.signer.SignBeaconAttestations(d.ctx, req)
	vsym.Reach("answered")
	vsym.Assert("Z1-response-or-error", res != nil || err != nil)
	d.stillAnswers()
}

func SignBeaconProposal() {
	vsym.ForbidCrash()
	d := start()
	r := &pb.SignBeaconProposalRequest{Id: &pb.SignBeaconProposalRequest_Account{Account: "W/a"}, Domain: wire("dom", 32),
		Data: &pb.BeaconBlockHeader{Slot: vsym.Uint64("slot"), ProposerIndex: vsym.Uint64("pidx"), ParentRoot: wire("pr", 32), StateRoot: wire("st", 32), BodyRoot: wire("br", 32)}}
	dev := vsym.Choose("dev", 8)
	val := 0
	if dev <= 5 {
		val = vsym.Choose("val", []int{len(names), len(byteLens), len(byteLens), len(byteLens), len(byteLens), len(byteLens)}[dev])
	}
	switch dev {
	case 0:
		r.Id = &pb.SignBeaconProposalRequest_Account{Account: names[val]}
	case 1:
		r.Id = &pb.SignBeaconProposalRequest_PublicKey{PublicKey: wire("pk", byteLens[val])}
	case 2:
		r.Domain = wire("dom", byteLens[val])
	case 3:
		r.Data.ParentRoot = wire("pr", byteLens[val])
	case 4:
		r.Data.StateRoot = wire("st", byteLens[val])
	case 5:
		r.Data.BodyRoot = wire("br", byteLens[val])
	case 6:
		r.Data = nil
	case 7:
		r.Id = nil
	}
	res, err := d.signer.SignBeaconProposal(d.ctx, r)
	vsym.Reach("answered")
	vsym.Assert("Z1-response-or-error", res != nil || err != nil)
	d.stillAnswers()
}

func signRequest(tag string, dev, val int) *pb.SignRequest {
	r := &pb.SignRequest{Id: &pb.SignRequest_Account{Account: "W/a"}, Domain: wire("dom"+tag, 32), Data: wire("data"+tag, 32)}
	switch dev {
	case 0:
		r.Id = &pb.SignRequest_Account{Account: names[val%len(names)]}
	case 1:
		r.Id = &pb.SignRequest_PublicKey{PublicKey: wire("pk"+tag, byteLens[val%len(byteLens)])}
	case 2:
		r.Domain = wire("dom"+tag, byteLens[val%len(byteLens)])
	case 3:
		r.Data = wire("data"+tag, byteLens[val%len(byteLens)])
	case 4:
		r.Id = nil
	}
	return r
}

func Sign() {
	vsym.ForbidCrash()
	d := start()
	dev := vsym.Choose("dev", 5)
	val := 0
	if dev < 4 {
		val = vsym.Choose("val", []int{len(names), len(byteLens), len(byteLens), len(byteLens)}[dev])
	}
	res, err := d.signer.Sign(d.ctx, signRequest("", dev, val))
	vsym.Reach("answered")
	vsym.Assert("Z1-response-or-error", res != nil || err != nil)
	d.stillAnswers()
}

// SignPairs: domain length x data length together.
func SignPairs() {
	vsym.ForbidCrash()
	d := start()
	r := signRequest("", -1, 0)
	r.Domain = wire("dom", byteLens[vsym.Choose("domlen", len(byteLens))])
	r.Data = wire("data", byteLens[vsym.Choose("datalen", len(byteLens))])
	res, err := d.signer.Sign(d.ctx, r)
	vsym.Reach("answered")
	vsym.Assert("Z1-response-or-error", res != nil || err != nil)
	d.stillAnswers()
}

func Multisign() {
	vsym.ForbidCrash()
	vsym.SetGOMAXPROCS([]int{1, 2, 4}[vsym.Choose("gomaxprocs", 3)])
	d := start()
	n := vsym.Choose("n", 4)
	req := &pb.MultisignRequest{}
	which, dev, val := 0, -1, 0
	if n > 0 {
		which = vsym.Choose("which", n)
		dev = vsym.Choose("dev", 6) // 5 = repeat the first account
		if dev < 4 {
			val = vsym.Choose("val", []int{len(names), len(byteLens), len(byteLens), len(byteLens)}[dev])
		}
	}
	accts := []string{"W/a", "W/b", "W/c"}
	for k := 0; k < n; k++ {
		tag := fmt.Sprintf("%d", k)
		var r *pb.SignRequest
		if k == which && dev < 5 {
			r = signRequest(tag, dev, val)
		} else {
			r = nominalSign(byte(k))
			r.Id = &pb.SignRequest_Account{Account: accts[k]}
			if k == which && dev == 5 {
				r.Id = &pb.SignRequest_Account{Account: accts[0]}
			}
		}
		req.Requests = append(req.Requests, r)
	}
	res, err := d.signer.Multisign(d.ctx, req)
	vsym.Reach("answered")
	vsym.Assert("Z1-response-or-error", res != nil || err != nil)
	d.stillAnswers()
}

var listPaths = []string{"W", "W/", "W/.*", "W/a", "Nope", "", "/", "/a", "W/[", "W/a/b", "W/(", "W/^a$", ".*"}

func ListAccounts() {
	vsym.ForbidCrash()
	d := start()
	n := vsym.Choose("n", 3)
	req := &pb.ListAccountsRequest{}
	for k := 0; k < n; k++ {
		req.Paths = append(req.Paths, listPaths[vsym.Choose(fmt.Sprintf("path%d", k), len(listPaths))])
	}
	res, err := d.lister.ListAccounts(d.ctx, req)
	vsym.Reach("answered")
	vsym.Assert("Z1-response-or-error", res != nil || err != nil)
	d.stillAnswers()
}

func AccountAndWalletManagers() {
	vsym.ForbidCrash()
	d := start()
	name := names[vsym.Choose("name", len(names))]
	pass := wire("pass", []int{0, 1, 8}[vsym.Choose("passlen", 3)])
	var res interface{}
	var err error
	switch vsym.Choose("endpoint", 4) {
	case 0:
		res, err = d.account.Lock(d.ctx, &pb.LockAccountRequest{Account: name})
	case 1:
		res, err = d.account.Unlock(d.ctx, &pb.UnlockAccountRequest{Account: name, Passphrase: pass})
	case 2:
		res, err = d.wallet.Lock(d.ctx, &pb.LockWalletRequest{Wallet: name})
	default:
		res, err = d.wallet.Unlock(d.ctx, &pb.UnlockWalletRequest{Wallet: name, Passphrase: pass})
	}
	vsym.Reach("answered")
	vsym.Assert("Z1-response-or-error", res != nil || err != nil)
}

// NilRequests: a nil message never crashes a handler.
func NilRequests() {
	vsym.ForbidCrash()
	d := start()
	switch vsym.Choose("handler", 10) {
	case 0:
		d.signer.Sign(d.ctx, nil)
	case 1:
		d.signer.Multisign(d.ctx, nil)
	case 2:
		d.signer.SignBeaconAttestation(d.ctx, nil)
	case 3:
		d.signer.SignBeaconAttestations(d.ctx, nil)
	case 4:
		d.signer.SignBeaconProposal(d.ctx, nil)
	case 5:
		d.lister.ListAccounts(d.ctx, nil)
	case 6:
		d.account.Lock(d.ctx, nil)
	case 7:
		d.account.Unlock(d.ctx, nil)
	case 8:
		d.wallet.Lock(d.ctx, nil)
	default:
		d.wallet.Unlock(d.ctx, nil)
	}
	vsym.Reach("answered")
	d.stillAnswers()
}

type nopProcess struct{}

func (nopProcess) OnPrepare(ctx context.Context, sender uint64, account string, passphrase []byte, threshold uint32, participants []*core.Endpoint) error {
	return nil
}
func (nopProcess) OnExecute(ctx context.Context, sender uint64, account string) error { return nil }
func (nopProcess) OnCommit(ctx context.Context, sender uint64, account string, confirmationData []byte) ([]byte, []byte, error) {
	return nil, nil, nil
}
func (nopProcess) OnAbort(ctx context.Context, sender uint64, account string) error { return nil }
func (nopProcess) OnGenerate(ctx context.Context, credentials *checker.Credentials, account string, passphrase []byte, threshold uint32, numParticipants uint32) ([]byte, []*core.Endpoint, error) {
	return nil, nil, nil
}
func (nopProcess) OnContribute(ctx context.Context, sender uint64, account string, secret bls.SecretKey, vVec []bls.PublicKey) (bls.SecretKey, []bls.PublicKey, error) {
	return bls.SecretKey{}, nil, nil
}

var _ = ruler.ActionSign
