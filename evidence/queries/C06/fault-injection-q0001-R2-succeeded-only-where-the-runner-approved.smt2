; harness MalformedRulerGeneric2 assert R2-succeeded-only-where-the-runner-approved expected sat
(set-logic ALL)
(assert true)
(check-sat)
