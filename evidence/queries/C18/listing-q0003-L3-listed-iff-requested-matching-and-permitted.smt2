; harness ListingAtStartUp assert L3-listed-iff-requested-matching-and-permitted expected unsat
(set-logic ALL)
(declare-const perm_Wallet1_acc1 Bool)
(define-fun t57 () Bool (not perm_Wallet1_acc1))
(assert t57)
(assert perm_Wallet1_acc1)
(check-sat)
