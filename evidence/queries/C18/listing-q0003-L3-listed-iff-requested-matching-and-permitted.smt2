; harness ListingAtStartUp assert L3-listed-iff-requested-matching-and-permitted expected unsat
(set-logic ALL)
(declare-const perm_Wallet1_acc2 Bool)
(define-fun t52 () Bool (not perm_Wallet1_acc2))
(assert t52)
(assert perm_Wallet1_acc2)
(check-sat)
