; harness ListingAtStartUp assert L3-listed-iff-requested-matching-and-permitted expected unsat
(set-logic ALL)
(declare-const perm_Wallet1_acc2 Bool)
(assert perm_Wallet1_acc2)
(define-fun t441 () Bool (not perm_Wallet1_acc2))
(assert t441)
(check-sat)
