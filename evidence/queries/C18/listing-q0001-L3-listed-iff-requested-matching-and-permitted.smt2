; harness ListingAfterDynamicCreate assert L3-listed-iff-requested-matching-and-permitted expected unsat
(set-logic ALL)
(declare-const perm_Wallet1_acc9 Bool)
(assert perm_Wallet1_acc9)
(define-fun t178 () Bool (not perm_Wallet1_acc9))
(assert t178)
(check-sat)
