; harness ListingAtStartUp assert L3-listed-iff-requested-matching-and-permitted expected unsat
(set-logic ALL)
(declare-const perm_Wallet1_acc11 Bool)
(assert perm_Wallet1_acc11)
(define-fun t449 () Bool (not perm_Wallet1_acc11))
(assert t449)
(check-sat)
