; harness ListingAtStartUp assert L3-listed-iff-requested-matching-and-permitted expected unsat
(set-logic ALL)
(declare-const perm_Wallet1_Val_1 Bool)
(assert perm_Wallet1_Val_1)
(define-fun t468 () Bool (not perm_Wallet1_Val_1))
(assert t468)
(check-sat)
