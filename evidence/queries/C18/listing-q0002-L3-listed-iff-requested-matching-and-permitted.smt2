; harness ListingAtStartUp assert L3-listed-iff-requested-matching-and-permitted expected unsat
(set-logic ALL)
(declare-const perm_Wallet1_acc1 Bool)
(assert perm_Wallet1_acc1)
(define-fun t398 () Bool (not perm_Wallet1_acc1))
(assert t398)
(check-sat)
