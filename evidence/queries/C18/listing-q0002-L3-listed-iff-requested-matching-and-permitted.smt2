; harness ListingAtStartUp assert L3-listed-iff-requested-matching-and-permitted expected unsat
(set-logic ALL)
(declare-const perm_Wallet1_acc2 Bool)
(assert perm_Wallet1_acc2)
(define-fun t391 () Bool (not perm_Wallet1_acc2))
(assert t391)
(check-sat)
